package main

// C03 — exact primitives are Euclidean; compositions never overestimate (structural part).
//
//  E1  exact closed forms, composed constructor ∘ Evaluate:
//        Sphere3D, Circle2D      ≡ |p| − radius
//        Box2D, Box3D            on every cell of the sign/order arrangement of
//                                d = |p| − (size/2 − round): √(Σ_{d_k>0} d_k²) if
//                                some d_k > 0, else max_k d_k; minus round
//        Cylinder3D              the same 2D box form in (√(x²+y²), z)
//        Line2D                  |y| resp. √((|x|−l/2)² + y²), minus round
//      (piecewise functions are decided cell by cell: the branch conditions
//      are evaluated exactly at a rational witness of the cell, the surviving
//      branch is compared symbolically with the reference formula)
//  L1  non-expansiveness calculus over the composite of every combinator the
//      statement lists: the result is built from operand evaluations by
//      min/max/blend, negation, |·|, ± constants, unit-normal plane distances
//      and k·f(p/k), and every operand is evaluated at a non-expansive image
//      of p: a translate / coordinate projection, (√(x²+y²), z), p − clamp(p),
//      the polar sawtooth fold, or an affine map (isometry for rigid
//      transforms: assumption, recorded)
//
// Not decided: cone, rounded extrusion, loft, polygon exactness (C04 decides
// its crossing rule), the polynomial blends' Lipschitz bound, continuity of
// piecewise forms other than the primitives of E1.

import (
	"fmt"
	"math"
	"math/big"
	"sort"
	"strings"

	"golang.org/x/tools/go/ssa"
)

func init() { register("C03", checkC03) }

func checkC03(ctx *Ctx, r *Report, tier string) {
	r.Explain = "Exactness of the closed-form primitives is decided cell by cell against the Euclidean reference formulas (sphere, circle, box 2D/3D incl. rounding, cylinder, line); for the combinators the statement names, a non-expansiveness calculus over the composed constructor∘Evaluate term shows that operands are combined only by Lipschitz-preserving operations and evaluated at non-expansive images of the query point. This is a structural necessary condition of 'never reports more than the true distance'; the rounded extrusion and the loft are compared region by region with the distance to their inset solid on a grid of profile distances and heights; the cone, the polygon's distance computation and the blends' constants are not decided."
	r.Trusted = []string{"go/types", "go/ssa", "compositional symbolic evaluator", "exact polynomial identity testing", "facts: p − clamp(p,a,b), (√(x²+y²), z), coordinate projections, translations and the polar sawtooth fold are non-expansive; min, max and the polynomial blends preserve the Lipschitz bound"}
	r.Assume = []string{"operands are 1-Lipschitz (induction over expression trees)", "Transform / RotateUnion are used with rigid (orthonormal) matrices when exactness is expected"}
	checkExactPrimitives(ctx, r)
	checkNonExpansive(ctx, r)
	r.floor("E1", 6)
	r.floor("L1", 18)
	// L2: the polynomial blend kernel is non-decreasing and 1-Lipschitz in each argument (a premise
	// of L1 for blended combinators; rule shared with C02 M11)
	checkPolyKernel(ctx, r, "L2")
	checkRoundedExtrusion(ctx, r, "L3")
	checkConeDistance(ctx, r)
	r.expectControl("L1", "verifCtlScaleNoDivide3D")
}

func composeCtor(ctx *Ctx, name string, opaque ...string) (*Term, *ssa.Function, bool) {
	fn := ctx.ssaFunc("sdf", name)
	if fn == nil {
		return nil, nil, false
	}
	alts, _ := ctorAltsFollow(ctx, fn, opaque...)
	if len(alts) == 0 {
		return nil, fn, false
	}
	ca := alts[len(alts)-1]
	res, _, err := composeMethod(ctx, ca, "Evaluate", opaque...)
	t, _ := res.(*Term)
	return t, fn, err == nil && t != nil
}

func checkExactPrimitives(ctx *Ctx, r *Report) {
	sq := func(t *Term) *Term { return Mul(t, t) }
	pX, pY, pZ := A("p.X"), A("p.Y"), A("p.Z")
	// sphere, circle
	if t, fn, ok := composeCtor(ctx, "Sphere3D"); ok {
		want := Sub(Call("math.Sqrt", Add(sq(pX), sq(pY), sq(pZ))), A("radius"))
		r.check("E1", "Sphere3D", fn.Pos(), equalRat(t, want), "|p| − radius; composite "+shortKey(t.Key(), 120))
	} else {
		r.undecided("E1", "Sphere3D", 0, "cannot compose")
	}
	if t, fn, ok := composeCtor(ctx, "Circle2D"); ok {
		want := Sub(Call("math.Sqrt", Add(sq(pX), sq(pY))), A("radius"))
		r.check("E1", "Circle2D", fn.Pos(), equalRat(t, want), "|p| − radius; composite "+shortKey(t.Key(), 120))
	} else {
		r.undecided("E1", "Circle2D", 0, "cannot compose")
	}
	half := func(t *Term) *Term { return Mul(KR(big.NewRat(1, 2)), t) }
	// boxes
	type boxSpec struct {
		name string
		q    []*Term // the "absolute coordinate" terms
		s    []*Term // half sizes before inset
	}
	absT := func(t *Term) *Term { return Call("math.Abs", t) }
	rxy := Call("math.Sqrt", Add(sq(pX), sq(pY)))
	specs := []boxSpec{
		{"Box3D", []*Term{absT(pX), absT(pY), absT(pZ)}, []*Term{half(A("size.X")), half(A("size.Y")), half(A("size.Z"))}},
		{"Box2D", []*Term{absT(pX), absT(pY)}, []*Term{half(A("size.X")), half(A("size.Y"))}},
		{"Cylinder3D", []*Term{absT(rxy), absT(pZ)}, []*Term{A("radius"), half(A("height"))}},
	}
	for _, bs := range specs {
		t, fn, ok := composeCtor(ctx, bs.name)
		if !ok {
			r.undecided("E1", bs.name, 0, "cannot compose")
			continue
		}
		dim := len(bs.q)
		round := A("round")
		d := make([]*Term, dim)
		for k := 0; k < dim; k++ {
			d[k] = Sub(bs.q[k], Sub(bs.s[k], round))
		}
		// cells: every assignment of distinct magnitudes and signs to d_k
		mags := [][]int{{1, 2, 3}, {1, 3, 2}, {2, 1, 3}, {2, 3, 1}, {3, 1, 2}, {3, 2, 1}}
		if dim == 2 {
			mags = [][]int{{1, 2}, {2, 1}}
		}
		cells, bad := 0, ""
		for _, mg := range mags {
			for sgn := 0; sgn < 1<<uint(dim); sgn++ {
				cells++
				env := map[string]*big.Rat{round.Key(): big.NewRat(1, 1)}
				D := make([]int, dim)
				for k := 0; k < dim; k++ {
					D[k] = mg[k]
					if sgn>>uint(k)&1 == 1 {
						D[k] = -D[k]
					}
					// s_k − round = 4+k  (s atoms: size.k/2 etc.), q_k = D_k + 4 + k
					sv := big.NewRat(int64(5+k), 1) // half size incl. round
					setAtomValue(env, bs.s[k], sv)
					env[bs.q[k].Key()] = big.NewRat(int64(D[k]+4+k), 1)
				}
				truth := map[string]bool{}
				okEval := true
				for _, c := range condAtoms(t) {
					if c.Op != "cmp" {
						okEval = false
						continue
					}
					a, ok1 := evalRat(c.Args[0], copyEnv(env), 0)
					b, ok2 := evalRat(c.Args[1], copyEnv(env), 0)
					if !ok1 || !ok2 || usesUnset(c, env) {
						okEval = false
						continue
					}
					truth[c.Key()] = cmpHolds(c.S, a.Cmp(b))
				}
				if !okEval {
					bad += fmt.Sprintf(" cell %v: a branch condition is not a comparison of the coordinates/sizes;", D)
					continue
				}
				g := resolveMinMax(assume(t, truth), env)
				var want *Term
				anyPos := false
				sum := K(0)
				best := 0
				for k := 0; k < dim; k++ {
					if D[k] > 0 {
						anyPos = true
						sum = Add(sum, sq(d[k]))
					}
					if D[k] > D[best] {
						best = k
					}
				}
				if anyPos {
					npos := 0
					var only *Term
					for k := 0; k < dim; k++ {
						if D[k] > 0 {
							npos++
							only = d[k]
						}
					}
					if npos == 1 {
						want = Sub(only, round)
					} else {
						want = Sub(Call("math.Sqrt", sum), round)
					}
				} else {
					want = Sub(d[best], round)
				}
				if !equalRat(g, want) {
					// a single positive component may be written as sqrt(d²) or d: accept both
					bad += fmt.Sprintf(" cell d=%v: value %s, Euclidean distance is %s;", D, shortKey(g.Key(), 90), shortKey(want.Key(), 90))
				}
			}
		}
		r.Counts["primitive_cells"] += cells
		r.check("E1", bs.name, fn.Pos(), bad == "", fmt.Sprintf("%d cells of the sign/order arrangement of d = |p| − (size/2 − round);%s", cells, shortKey(bad, 600)))
	}
	// Line2D
	if t, fn, ok := composeCtor(ctx, "Line2D"); ok {
		ax, ay := Call("math.Abs", pX), Call("math.Abs", pY)
		hl := half(A("l"))
		bad := ""
		for _, inside := range []bool{true, false} {
			env := map[string]*big.Rat{"l": big.NewRat(4, 1), "round": big.NewRat(1, 1), ay.Key(): big.NewRat(3, 1)}
			if inside {
				env[ax.Key()] = big.NewRat(1, 1)
			} else {
				env[ax.Key()] = big.NewRat(5, 1)
			}
			truth := map[string]bool{}
			for _, c := range condAtoms(t) {
				a, ok1 := evalRat(c.Args[0], copyEnv(env), 0)
				b, ok2 := evalRat(c.Args[1], copyEnv(env), 0)
				if c.Op != "cmp" || !ok1 || !ok2 || usesUnset(c, env) {
					bad += " unexpected branch condition;"
					continue
				}
				truth[c.Key()] = cmpHolds(c.S, a.Cmp(b))
			}
			g := assume(t, truth)
			want := Sub(ay, A("round"))
			if !inside {
				want = Sub(Call("math.Sqrt", Add(sq(Sub(ax, hl)), sq(ay))), A("round"))
			}
			if !equalRat(g, want) {
				bad += fmt.Sprintf(" |x|<=l/2=%v: %s vs %s;", inside, shortKey(g.Key(), 90), shortKey(want.Key(), 90))
			}
		}
		r.check("E1", "Line2D", fn.Pos(), bad == "", "distance to the segment minus round, both regions;"+bad)
	} else {
		r.undecided("E1", "Line2D", 0, "cannot compose")
	}
}

func copyEnv(m map[string]*big.Rat) map[string]*big.Rat {
	o := make(map[string]*big.Rat, len(m))
	for k, v := range m {
		o[k] = v
	}
	return o
}

// setAtomValue makes term t (c·atom or atom) evaluate to v.
func setAtomValue(env map[string]*big.Rat, t *Term, v *big.Rat) {
	co, rest := splitCoef(t)
	env[rest.Key()] = new(big.Rat).Quo(v, co)
}

// usesUnset: the comparison mentions a leaf that the witness does not define
// (so its truth would come from an arbitrary pseudo-random value).
func usesUnset(c *Term, env map[string]*big.Rat) bool {
	bad := false
	var walk func(x *Term)
	walk = func(x *Term) {
		switch x.Op {
		case "c":
		case "+", "*", "/", "cmp":
			for _, a := range x.Args {
				walk(a)
			}
		default:
			if _, ok := env[x.Key()]; !ok {
				bad = true
			}
		}
	}
	walk(c)
	return bad
}

func cmpHolds(op string, r int) bool {
	switch op {
	case "<":
		return r < 0
	case "<=":
		return r <= 0
	case ">":
		return r > 0
	case ">=":
		return r >= 0
	case "==":
		return r == 0
	case "!=":
		return r != 0
	}
	return false
}

// ---------------------------------------------------------------- L1

type lipCtx struct {
	facts map[string]bool
	seen  map[string]bool
}

func dependsOnP(t *Term) bool { return dependsOnPSeen(t, map[string]bool{}) }

func dependsOnPSeen(t *Term, seen map[string]bool) bool {
	return len(findSub(t, func(x *Term) bool {
		if x.Op == "a" && (strings.HasPrefix(x.S, "p.")) {
			return true
		}
		if x.Op == "a" {
			if rc, ok := recs[x.S]; ok {
				if seen[x.S] {
					return false
				}
				seen[x.S] = true
				return dependsOnPSeen(rc.Init, seen) || dependsOnPSeen(rc.Step, seen)
			}
		}
		return x.Op == "call" && strings.HasSuffix(x.S, ".Evaluate")
	})) > 0
}

// resolveMinMax replaces math.Max / math.Min nodes by the argument that
// attains them at the witness point.
func resolveMinMax(t *Term, env map[string]*big.Rat) *Term {
	return rebuild(t, func(x *Term) *Term {
		if x.Op != "call" || (x.S != "math.Max" && x.S != "math.Min") || len(x.Args) != 2 {
			return nil
		}
		a, b := resolveMinMax(x.Args[0], env), resolveMinMax(x.Args[1], env)
		va, ok1 := evalRat(a, copyEnv(env), 0)
		vb, ok2 := evalRat(b, copyEnv(env), 0)
		if !ok1 || !ok2 || usesUnset(a, env) || usesUnset(b, env) {
			return Call(x.S, a, b)
		}
		c := va.Cmp(vb)
		if (x.S == "math.Max") == (c >= 0) {
			return a
		}
		return b
	})
}

// unitLinear: t = Σ c_k·p.k + c0 with Σ c_k² ≡ 1 (coefficients normalised by
// the length of the vector they come from, or a (−sin, cos) pair).
func unitLinear(t *Term) bool {
	var parts []*Term
	if t.Op == "+" {
		parts = t.Args
	} else {
		parts = []*Term{t}
	}
	coef := map[string]*Term{}
	for _, part := range parts {
		if !dependsOnP(part) {
			continue
		}
		var fs []*Term
		if part.Op == "*" {
			fs = part.Args
		} else {
			fs = []*Term{part}
		}
		var pv *Term
		rest := []*Term{K(1)}
		for _, f := range fs {
			if f.Op == "a" && strings.HasPrefix(f.S, "p.") && pv == nil {
				pv = f
			} else {
				rest = append(rest, f)
			}
		}
		if pv == nil || dependsOnP(Mul(rest...)) {
			return false
		}
		if coef[pv.S] == nil {
			coef[pv.S] = K(0)
		}
		coef[pv.S] = Add(coef[pv.S], Mul(rest...))
	}
	if len(coef) == 0 {
		return false
	}
	sum := K(0)
	for _, c := range coef {
		sum = Add(sum, Mul(c, c))
	}
	if equalRat(sum, K(1)) {
		return true
	}
	// normalised by a square root: Σ a_k² / S with the coefficients a_k/√S
	for _, sqn := range findSub(sum, func(x *Term) bool { return x.Op == "call" && x.S == "math.Sqrt" }) {
		// replace √S·√S by S
		s2 := substKeys(Mul(sum, sqn, sqn), map[string]*Term{})
		if equalRat(s2, sqn.Args[0]) {
			return true
		}
	}
	// trigonometric pair: sin² + cos² of the same angle
	sins := findSub(sum, func(x *Term) bool { return x.Op == "call" && x.S == "math.Sin" })
	coss := findSub(sum, func(x *Term) bool { return x.Op == "call" && x.S == "math.Cos" })
	if len(sins) == 1 && len(coss) == 1 && sins[0].Args[0].Key() == coss[0].Args[0].Key() {
		if equalRat(sum, Add(Mul(sins[0], sins[0]), Mul(coss[0], coss[0]))) {
			return true
		}
	}
	return false
}

// nonExpansiveArgs classifies the point at which an operand is evaluated.
func (lc *lipCtx) nonExpansiveArgs(args []*Term) (bool, string) {
	pX, pY := A("p.X"), A("p.Y")
	rxy := Call("math.Sqrt", Add(Mul(pX, pX), Mul(pY, pY)))
	// (a) translate / projection
	used := map[string]bool{}
	okA := true
	for _, a := range args {
		var pv *Term
		for _, s := range findSub(a, func(x *Term) bool { return x.Op == "a" && strings.HasPrefix(x.S, "p.") }) {
			if pv != nil {
				okA = false
			}
			pv = s
		}
		if pv == nil || !okA {
			okA = false
			break
		}
		rest := Sub(a, pv)
		if dependsOnP(rest) && !strings.Contains(rest.Key(), "Clamp(") {
			okA = false
			break
		}
		if used[pv.S] {
			okA = false
		}
		used[pv.S] = true
		if strings.Contains(rest.Key(), "Clamp(") {
			// p.k − Clamp(p, lo, hi).k
			want := A("")
			_ = want
			if !(rest.Op == "*" || rest.Op == "a") {
				okA = false
			}
			lc.facts["p − clamp(p, a, b) is non-expansive"] = true
		}
	}
	if okA {
		lc.facts["translation / coordinate projection"] = true
		return true, ""
	}
	// (b) radial
	if len(args) == 2 && args[0].Key() == rxy.Key() && args[1].Key() == "p.Z" {
		lc.facts["(√(x²+y²), z) is non-expansive"] = true
		return true, ""
	}
	// (d) polar fold
	if len(args) >= 2 {
		saws := findSub(args[0], func(x *Term) bool { return x.Op == "call" && strings.HasSuffix(x.S, ".SawTooth") })
		if len(saws) == 1 && saws[0].Args[0].Key() == Call("math.Atan2", pY, pX).Key() {
			c, s := Call("math.Cos", saws[0]), Call("math.Sin", saws[0])
			if equalRat(args[0], Mul(rxy, c)) && equalRat(args[1], Mul(rxy, s)) && (len(args) == 2 || args[2].Key() == "p.Z") {
				lc.facts["polar sawtooth fold is non-expansive"] = true
				return true, ""
			}
		}
	}
	// (d') c·p with one non-constant factor c on every axis: a uniform scaling of the
	// point whose result is not rescaled (the rescaled form k·f(p/k) is recognised at
	// the product above this call and never gets here)
	if len(args) >= 2 {
		comps := []string{"p.X", "p.Y", "p.Z"}
		c := substAtoms(args[0], map[string]*Term{"p.X": K(1)})
		uniform := !dependsOnP(c)
		for i, a := range args {
			if i >= len(comps) || !uniform || !equalRat(a, Mul(c, A(comps[i]))) {
				uniform = false
			}
		}
		if uniform && !equalRat(c, K(1)) && !equalRat(c, K(-1)) {
			return false, "operand evaluated at the uniformly scaled point " + shortKey(c.Key(), 80) + "·p and the distance is not scaled back"
		}
	}
	// (e) affine in p with parameter / loop-carried matrix entries
	aff := true
	for _, a := range args {
		coefs, terms, _, lin := linear(a)
		_ = coefs
		if lin {
			for _, tm := range terms {
				if tm.Op == "a" && strings.HasPrefix(tm.S, "p.") {
					continue
				}
				if dependsOnP(tm) {
					aff = false
				}
			}
			continue
		}
		// products p.k · m
		var parts []*Term
		if a.Op == "+" {
			parts = a.Args
		} else {
			parts = []*Term{a}
		}
		for _, part := range parts {
			np := len(findSub(part, func(x *Term) bool { return x.Op == "a" && strings.HasPrefix(x.S, "p.") }))
			if np > 1 || len(findSub(part, func(x *Term) bool { return x.Op == "call" && x.S != "math.Sqrt" })) > 0 {
				aff = false
			}
			if part.Op == "*" {
				cnt := 0
				for _, f := range part.Args {
					if f.Op == "a" && strings.HasPrefix(f.S, "p.") {
						cnt++
					}
				}
				if cnt > 1 {
					aff = false
				}
			}
		}
	}
	if aff {
		lc.facts["affine map of p: an isometry when the matrix is rigid (assumption)"] = true
		return true, ""
	}
	return false, "operand evaluated at " + shortKey(aggT(args...).Key(), 160)
}

func (lc *lipCtx) ok(t *Term) (bool, string) {
	if !dependsOnP(t) {
		return true, ""
	}
	switch t.Op {
	case "a":
		if rc, has := recs[t.S]; has {
			if lc.seen[t.S] {
				return true, ""
			}
			lc.seen[t.S] = true
			if ok, why := lc.ok(rc.Init); !ok {
				return false, why
			}
			return lc.ok(rc.Step)
		}
		if strings.HasPrefix(t.S, "p.") {
			return true, ""
		}
		return false, "unknown atom " + t.S
	case "call":
		switch {
		case strings.HasSuffix(t.S, ".Evaluate"):
			if len(t.Args) == 1 && t.Args[0].Op == "agg" {
				return lc.nonExpansiveArgs(t.Args[0].Args)
			}
			return false, "operand call shape"
		case t.S == "math.Max" || t.S == "math.Min" || t.S == "MaxFunc" || t.S == "MinFunc" || t.S == "math.Abs":
			for _, a := range t.Args {
				if ok, why := lc.ok(a); !ok {
					return false, why
				}
			}
			lc.facts["min / max / |·| preserve the bound"] = true
			return true, ""
		case t.S == "math.Sqrt":
			// a Euclidean norm of p-components
			if len(findSub(t, func(x *Term) bool { return x.Op == "call" && strings.HasSuffix(x.S, ".Evaluate") })) == 0 {
				lc.facts["Euclidean norm of coordinates"] = true
				return true, ""
			}
		}
		return false, "opaque function of p: " + shortKey(t.Key(), 100)
	case "ite":
		if dependsOnP(t.Args[0]) {
			return false, "case distinction on the query point (continuity not decided): " + shortKey(t.Args[0].Key(), 100)
		}
		for _, a := range t.Args[1:] {
			if ok, why := lc.ok(a); !ok {
				return false, why
			}
		}
		return true, ""
	case "+":
		var dp []*Term
		for _, a := range t.Args {
			if dependsOnP(a) {
				dp = append(dp, a)
			}
		}
		if len(dp) == 1 {
			return lc.ok(dp[0])
		}
		if unitLinear(t) {
			lc.facts["plane distance with a unit normal"] = true
			return true, ""
		}
		return false, "sum of several point-dependent terms: " + shortKey(t.Key(), 160)
	case "*":
		co, rest := splitCoef(t)
		abs := new(big.Rat).Abs(co)
		var fs []*Term
		if rest.Op == "*" {
			fs = rest.Args
		} else {
			fs = []*Term{rest}
		}
		var dp, indep []*Term
		for _, f := range fs {
			if dependsOnP(f) {
				dp = append(dp, f)
			} else {
				indep = append(indep, f)
			}
		}
		if len(dp) == 1 && len(indep) == 0 {
			if abs.Cmp(big.NewRat(1, 1)) > 0 {
				return false, "scaled by " + co.RatString()
			}
			return lc.ok(dp[0])
		}
		// k · f(p/k)
		if len(dp) == 1 && len(indep) == 1 && abs.Cmp(big.NewRat(1, 1)) == 0 && dp[0].Op == "call" && strings.HasSuffix(dp[0].S, ".Evaluate") && len(dp[0].Args) == 1 {
			k := indep[0]
			okS := true
			for i, a := range dp[0].Args[0].Args {
				comp := []string{"X", "Y", "Z"}[i]
				if !equalRat(a, Mul(A("p."+comp), Div(K(1), k))) {
					okS = false
				}
			}
			if okS {
				lc.facts["k·f(p/k): uniform scaling"] = true
				return true, ""
			}
			return false, "result scaled by " + k.Key() + " but the point is not divided by it"
		}
		if unitLinear(t) {
			lc.facts["plane distance with a unit normal"] = true
			return true, ""
		}
		return false, "product of point-dependent terms: " + shortKey(t.Key(), 160)
	}
	return false, "unsupported term " + t.Op
}

func checkNonExpansive(ctx *Ctx, r *Report) {
	names := []string{"Union3D", "Union2D", "Intersect3D", "Intersect2D", "Difference3D", "Difference2D", "Cut3D", "Cut2D", "Offset3D", "Offset2D", "Shell3D",
		"Elongate3D", "Elongate2D", "Array3D", "Array2D", "RotateCopy3D", "RotateCopy2D", "RotateUnion3D", "RotateUnion2D", "Extrude3D", "RevolveTheta3D",
		"ScaleUniform3D", "ScaleUniform2D", "Transform3D", "Transform2D", "verifCtlScaleNoDivide3D"}
	for _, name := range names {
		fn := ctx.ssaFunc("sdf", name)
		if fn == nil {
			if !strings.HasPrefix(name, "verifCtl") {
				r.undecided("L1", name, 0, "constructor not found")
			}
			continue
		}
		alts, _ := ctorAltsFollow(ctx, fn, "SawTooth", "Clamp")
		if len(alts) == 0 {
			r.undecided("L1", name, fn.Pos(), "constructor builds nothing")
			continue
		}
		ca := alts[len(alts)-1]
		method := "Evaluate"
		if name == "Union2D" {
			method = "EvaluateSlow" // the pruned Evaluate returns the same values (C16)
		}
		var t *Term
		if name == "Transform3D" || name == "Transform2D" {
			// the composite with the inverse matrix is too large: use the method's own term (stored matrix applied to p)
			m := methodOf(ctx, ca.typ, "Evaluate")
			ev := newEval(ctx)
			res, _ := ev.evalRoot(m)
			t, _ = res.(*Term)
		} else {
			res, _, err := composeMethod(ctx, ca, method, "SawTooth", "Clamp")
			if err == nil {
				t, _ = res.(*Term)
			}
		}
		if t == nil {
			r.undecided("L1", name, fn.Pos(), "cannot compose")
			continue
		}
		lc := &lipCtx{facts: map[string]bool{}, seen: map[string]bool{}}
		ok, why := lc.ok(t)
		var fs []string
		for f := range lc.facts {
			fs = append(fs, f)
		}
		sort.Strings(fs)
		r.check("L1", name, fn.Pos(), ok, fmt.Sprintf("non-expansive by construction; facts used: %v. %s", fs, why))
	}
}

// ---------------------------------------------------------------- E2: rounded cone inset

func init() {
	prev := registry["C03"].run
	registry["C03"] = propDef{run: func(ctx *Ctx, r *Report, tier string) {
		prev(ctx, r, tier)
		checkConeInset(ctx, r)
		r.floor("E2", 2)
	}}
}

// evalRatWitness evaluates t at a witness, taking exact square roots.
func evalRatWitness(t *Term, env map[string]*big.Rat) (*big.Rat, bool) {
	switch t.Op {
	case "c":
		return t.C, true
	case "+":
		s := new(big.Rat)
		for _, x := range t.Args {
			v, ok := evalRatWitness(x, env)
			if !ok {
				return nil, false
			}
			s.Add(s, v)
		}
		return s, true
	case "*":
		s := big.NewRat(1, 1)
		for _, x := range t.Args {
			v, ok := evalRatWitness(x, env)
			if !ok {
				return nil, false
			}
			s.Mul(s, v)
		}
		return s, true
	case "/":
		v, ok := evalRatWitness(t.Args[0], env)
		if !ok || v.Sign() == 0 {
			return nil, false
		}
		return new(big.Rat).Inv(v), true
	case "call":
		if t.S == "math.Sqrt" && len(t.Args) == 1 {
			v, ok := evalRatWitness(t.Args[0], env)
			if !ok || v.Sign() < 0 {
				return nil, false
			}
			n, d := new(big.Int).Sqrt(v.Num()), new(big.Int).Sqrt(v.Denom())
			if new(big.Int).Mul(n, n).Cmp(v.Num()) != 0 || new(big.Int).Mul(d, d).Cmp(v.Denom()) != 0 {
				return nil, false
			}
			return new(big.Rat).SetFrac(n, d), true
		}
	}
	v, ok := env[t.Key()]
	return v, ok
}

// checkConeInset: the inset slope line of a rounded cone, offset by `round`
// along its unit normal, is the nominal slope line through (r0, −h/2) and
// (r1, +h/2) — at both ends. Decided at rational witnesses where the slope
// length is rational (3-4-5 triangles), in exact arithmetic.
func checkConeInset(ctx *Ctx, r *Report) {
	fn := ctx.ssaFunc("sdf", "Cone3D")
	if fn == nil {
		r.undecided("E2", "Cone3D", 0, "not found")
		return
	}
	alts, _ := ctorAlts(ctx, fn)
	if len(alts) == 0 {
		r.undecided("E2", "Cone3D", fn.Pos(), "constructor builds nothing")
		return
	}
	m := map[string]*Term{}
	leafTerms("", alts[len(alts)-1].obj, m)
	need := []string{".r0", ".r1", ".height", ".n.X", ".n.Y", ".round"}
	for _, k := range need {
		if m[k] == nil {
			// the cone is stored in another representation: decide the same fact on the
			// composed closed form instead
			coneInsetNumeric(ctx, r, fn)
			return
		}
	}
	half := Mul(KR(big.NewRat(1, 2)), A("height"))
	// (Q − P)·n with Q = (r_inset, ±h_inset) + round·n, P = (r_nominal, ±h/2)
	end := func(rIn, rNom *Term, sign int64) *Term {
		dx := Add(Sub(rIn, rNom), Mul(m[".round"], m[".n.X"]))
		dy := Add(Sub(Mul(K(sign), m[".height"]), Mul(K(sign), half)), Mul(m[".round"], m[".n.Y"]))
		return Add(Mul(dx, m[".n.X"]), Mul(dy, m[".n.Y"]))
	}
	e0 := end(m[".r0"], A("r0"), -1)
	e1 := end(m[".r1"], A("r1"), 1)
	type wit struct{ r0, dr, h, round int64 }
	wits := []wit{{5, 3, 4, 1}, {7, -3, 4, 1}, {2, 5, 12, 1}, {9, -6, 8, 2}, {4, 8, 15, 1}}
	for i, e := range []*Term{e0, e1} {
		okAll, n := true, 0
		detail := ""
		for _, w := range wits {
			env := map[string]*big.Rat{"r0": big.NewRat(w.r0, 1), "r1": big.NewRat(w.r0+w.dr, 1), "height": big.NewRat(w.h, 1), "round": big.NewRat(w.round, 1)}
			v, ok := evalRatWitness(e, env)
			if !ok {
				continue
			}
			n++
			if v.Sign() != 0 {
				okAll = false
				detail += fmt.Sprintf(" at (r0=%d, r1=%d, h=%d, round=%d): off by %s;", w.r0, w.r0+w.dr, w.h, w.round, v.RatString())
			}
		}
		name := []string{"base", "top"}[i]
		r.check("E2", "Cone3D|inset-"+name+"-radius", fn.Pos(), okAll && n >= 3, fmt.Sprintf("inset %s radius + round·n lies on the nominal slope line (%d exact witnesses);%s", name, n, detail))
	}
}

// coneInsetNumeric (E2, representation independent): rounding a cone is an inset by `round`
// followed by an offset by `round`, so away from the rounded rims the surface is the nominal
// one: on the axis beyond a cap the distance is |z| − height/2, and along the normal through the
// middle of the slope it is the signed distance to the nominal slope line. A wrong inset radius
// moves the slope. The composite of constructor and Evaluate is evaluated at such points for
// cones with round > 0.
func coneInsetNumeric(ctx *Ctx, r *Report, fn *ssa.Function) {
	alts, _ := ctorAltsFollow(ctx, fn)
	if len(alts) == 0 {
		r.undecided("E2", "Cone3D", fn.Pos(), "constructor builds nothing")
		return
	}
	savedCap := termCap
	termCap = 200000
	res, _, err := composeMethod(ctx, alts[len(alts)-1], "Evaluate")
	termCap = savedCap
	t, _ := res.(*Term)
	if err != nil || t == nil || t.Op == "top" {
		r.undecided("E2", "Cone3D", fn.Pos(), "cannot compose constructor and Evaluate in closed form")
		return
	}
	names := []string{paramName(fn, 0), paramName(fn, 1), paramName(fn, 2), paramName(fn, 3)}
	for i, part := range []string{"base", "top"} {
		bad := ""
		n := 0
		// long slopes and small rounding radii: the rounded rims stay well away from the point
		cfgs := [][4]float64{{12, 9, 4, 0.5}, {10, 12, 6, 0.25}, {16, 7, 3, 0.5}, {9, 14, 8, 0.5}, {20, 6, 5, 1}}
		if i == 1 {
			cfgs = [][4]float64{{12, 4, 9, 0.5}, {10, 6, 12, 0.25}, {16, 3, 7, 0.5}, {9, 8, 14, 0.5}, {20, 5, 6, 1}}
		}
		for _, c := range cfgs {
			h, r0, r1, rd := c[0], c[1], c[2], c[3]
			l := math.Hypot(h, r0-r1)
			nx, nz := h/l, (r0-r1)/l
			// the middle of the slope, moved along the normal
			f := 0.5
			mx, mz := r0+(r1-r0)*f, -h/2+h*f
			for _, sft := range []float64{-0.2, 0.4, 1.5} {
				rho, z := mx+sft*nx, mz+sft*nz
				env := map[string]float64{names[0]: h, names[1]: r0, names[2]: r1, names[3]: rd, "p.X": rho * 0.6, "p.Y": rho * 0.8, "p.Z": z}
				got, ok := evalFloat(t, env)
				if !ok {
					bad = " the composite is not a closed form of the parameters;"
					break
				}
				n++
				if math.Abs(got-sft) > 1e-9 && len(bad) < 300 {
					bad += fmt.Sprintf(" h=%g r0=%g r1=%g round=%g: %g from the slope the value is %g;", h, r0, r1, rd, sft, got)
				}
			}
			// the rounded rim is a circle of radius `round` about the corner of the inset outline:
			// the inset cap line y = ±(h/2 − round) meets the slope moved inwards by `round`
			vy, capN := -(h/2 - rd), -1.0
			if i == 1 {
				vy, capN = h/2-rd, 1.0
			}
			vx := r0 + (-rd-(vy+h/2)*nz)/nx
			wx, wz := nx, nz+capN
			wl := math.Hypot(wx, wz)
			wx, wz = wx/wl, wz/wl
			for _, sft := range []float64{0.3, 1} {
				rho, z := vx+(rd+sft)*wx, vy+(rd+sft)*wz
				env := map[string]float64{names[0]: h, names[1]: r0, names[2]: r1, names[3]: rd, "p.X": rho * 0.6, "p.Y": rho * 0.8, "p.Z": z}
				got, ok := evalFloat(t, env)
				if !ok {
					bad = " the composite is not a closed form of the parameters;"
					break
				}
				n++
				if math.Abs(got-sft) > 1e-9 && len(bad) < 300 {
					bad += fmt.Sprintf(" h=%g r0=%g r1=%g round=%g: %g outside the rounded %s rim the value is %g;", h, r0, r1, rd, sft, part, got)
				}
			}
		}
		r.check("E2", "Cone3D|inset-"+part+"-radius", fn.Pos(), bad == "" && n >= 9, fmt.Sprintf("with the %s the larger end, the rounded cone's slope is the nominal slope (%d points along the normal through the middle of the slope, round > 0);%s", part, n, bad))
	}
}

// checkRoundedExtrusion (L3): the rounded extrusions (ExtrudeRounded3D, Loft3D) combine the
// profile distance a and the axial distance b = |z| − H (H the inset half height) region by
// region. The distance to the inset solid {a ≤ 0, b ≤ 0} is
//
//	b > 0, a < 0:  b          b > 0, a ≥ 0:  √(a² + b²)
//	b ≤ 0, a < 0:  max(a, b)  b ≤ 0, a ≥ 0:  a
//
// and the result is that minus the rounding radius. A region that returns anything larger in
// magnitude (a alone inside a flat plate, say) over-estimates the distance to the caps. The
// composite of constructor and Evaluate is evaluated in closed form with the profile distance
// replaced by a constant, on a grid of (a, z) that has points in each region and on both sides of
// each boundary, and compared with the formula above.
func checkRoundedExtrusion(ctx *Ctx, r *Report, rule string) {
	for _, name := range []string{"ExtrudeRounded3D", "Loft3D"} {
		fn := ctx.ssaFunc("sdf", name)
		if fn == nil {
			r.undecided(rule, name, 0, "constructor not found")
			continue
		}
		alts, _ := ctorAltsFollow(ctx, fn)
		var t *Term
		nRounded := 0
		for _, ca := range alts {
			if !strings.Contains(ca.typ.String(), "Rounded") && !strings.Contains(ca.typ.String(), "Loft") {
				continue // the round == 0 alternative builds a plain extrusion (M-spec Extrude3D)
			}
			res, _, err := composeMethod(ctx, ca, "Evaluate")
			if tt, _ := res.(*Term); err == nil && tt != nil {
				t = tt
				nRounded++
			}
		}
		if nRounded != 1 {
			r.undecided(rule, name, fn.Pos(), fmt.Sprintf("%d rounded alternatives compose with Evaluate", nRounded))
			continue
		}
		np := fn.Signature.Params().Len()
		hN, rN := paramName(fn, np-2), paramName(fn, np-1)
		bad := ""
		n := 0
		regions := map[string]bool{}
		for _, a := range []float64{-7, -2.5, -0.25, 0.25, 3} {
			body := rebuild(t, func(x *Term) *Term {
				if x.Op == "call" && strings.HasSuffix(x.S, ".Evaluate") {
					return KR(new(big.Rat).SetFloat64(a))
				}
				return nil
			})
			for _, z := range []float64{-9, -4.5, -3.75, -1, 0, 0.5, 2, 3.75, 4.5, 6} {
				// height 10, round 1: inset half height H = 4
				got, ok := evalFloat(body, map[string]float64{"p.X": 0.5, "p.Y": -0.25, "p.Z": z, hN: 10, rN: 1})
				if !ok {
					r.undecided(rule, name, fn.Pos(), "the composite is not a closed form of (a, z): "+shortKey(body.Key(), 200))
					bad = "-"
					break
				}
				b := math.Abs(z) - 4
				var want float64
				switch {
				case b > 0 && a < 0:
					want = b
					regions["cap"] = true
				case b > 0:
					want = math.Sqrt(a*a + b*b)
					regions["rim"] = true
				case a < 0:
					want = math.Max(a, b)
					regions["interior"] = true
				default:
					want = a
					regions["wall"] = true
				}
				want -= 1
				n++
				if math.Abs(got-want) > 1e-12 && len(bad) < 300 {
					bad += fmt.Sprintf(" a=%g z=%g (H=4, round=1): composite %g, distance to the rounded solid %g;", a, z, got, want)
				}
			}
			if bad == "-" {
				break
			}
		}
		if bad == "-" {
			continue
		}
		r.check(rule, name+"|region-formula", fn.Pos(), bad == "" && len(regions) == 4, fmt.Sprintf("%d (a, z) points over %d regions;%s", n, len(regions), bad))
	}
	r.floor(rule, 2)
}

// checkConeDistance (E3): the truncated cone is the solid of revolution of a trapezoid, and its
// distance at (ρ, z) is the signed distance of that point to the trapezoid mirrored across the
// axis - a convex polygon, whose distance has a textbook form (inside: −min over the edge lines;
// outside: distance to the nearest edge segment). The composite Cone3D ∘ Evaluate is evaluated in
// closed form for four sharp cones (round = 0; the inset of the rounded ones is E2) on a grid of
// (ρ, z) with points in every region of the case analysis - above, below, inside, beside the
// slope, beyond either rim and beyond the planes of the caps outside their radius - and compared
// with the polygon distance.
func checkConeDistance(ctx *Ctx, r *Report) {
	fn := ctx.ssaFunc("sdf", "Cone3D")
	if fn == nil {
		r.undecided("E3", "Cone3D", 0, "not found")
		return
	}
	alts, _ := ctorAltsFollow(ctx, fn)
	if len(alts) == 0 {
		r.undecided("E3", "Cone3D", fn.Pos(), "constructor builds nothing")
		return
	}
	savedCap := termCap
	termCap = 200000
	res, _, err := composeMethod(ctx, alts[len(alts)-1], "Evaluate")
	termCap = savedCap
	t, _ := res.(*Term)
	if err != nil || t == nil || t.Op == "top" {
		r.undecided("E3", "Cone3D", fn.Pos(), "cannot compose constructor and Evaluate in closed form")
		return
	}
	names := []string{paramName(fn, 0), paramName(fn, 1), paramName(fn, 2), paramName(fn, 3)}
	polyDist := func(px, py float64, vs [][2]float64) float64 {
		// convex, counter-clockwise
		inside := true
		best := math.Inf(1)
		bestIn := math.Inf(1)
		for i := range vs {
			a, b := vs[i], vs[(i+1)%len(vs)]
			ex, ey := b[0]-a[0], b[1]-a[1]
			l := math.Hypot(ex, ey)
			if l == 0 {
				continue
			}
			// signed distance to the edge line (positive outside)
			sd := ((px-a[0])*ey - (py-a[1])*ex) / l
			if sd > 0 {
				inside = false
			}
			bestIn = math.Min(bestIn, -sd)
			tt := ((px-a[0])*ex + (py-a[1])*ey) / (l * l)
			tt = math.Max(0, math.Min(1, tt))
			best = math.Min(best, math.Hypot(px-(a[0]+tt*ex), py-(a[1]+tt*ey)))
		}
		if inside {
			return -bestIn
		}
		return best
	}
	bad := ""
	n := 0
	for _, c := range [][3]float64{{4, 20, 2}, {10, 5, 1}, {6, 2, 5}, {8, 3, 3}} {
		h, r0, r1 := c[0], c[1], c[2]
		vs := [][2]float64{{-r0, -h / 2}, {r0, -h / 2}, {r1, h / 2}, {-r1, h / 2}}
		rmax := math.Max(r0, r1)
		for _, rho := range []float64{0, 0.25 * rmax, 0.9 * math.Min(r0, r1), 1.1 * math.Min(r0, r1), 0.95 * rmax, 1.05 * rmax, 1.5 * rmax, 3 * rmax} {
			for _, z := range []float64{-2.5 * h, -0.75 * h, -0.55 * h, -0.45 * h, -0.1 * h, 0.2 * h, 0.45 * h, 0.55 * h, 0.8 * h, 2 * h} {
				env := map[string]float64{names[0]: h, names[1]: r0, names[2]: r1, names[3]: 0, "p.X": rho * 0.6, "p.Y": rho * 0.8, "p.Z": z}
				got, ok := evalFloat(t, env)
				if !ok {
					r.undecided("E3", "Cone3D", fn.Pos(), "the composite is not a closed form that can be evaluated: "+shortKey(t.Key(), 200))
					return
				}
				want := polyDist(rho, z, vs)
				n++
				if math.Abs(got-want) > 1e-9*(1+math.Abs(want)) && len(bad) < 400 {
					bad += fmt.Sprintf(" Cone3D(%g, %g, %g, 0) at ρ=%.4g z=%.4g: %.6g, distance to the cone %.6g;", h, r0, r1, rho, z, got, want)
				}
			}
		}
	}
	r.check("E3", "Cone3D|distance-on-a-grid-of-all-regions", fn.Pos(), bad == "", fmt.Sprintf("%d points over 4 sharp cones against the signed distance to the mirrored trapezoid;%s", n, bad))
	r.floor("E3", 1)
}
