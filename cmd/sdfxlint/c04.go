package main

// C04 — polygon SDF: the crossing rules on the measure-zero sets.
//
//  W1  lineInfo.winding, as a comparison-only term over (ay, by, py) and the
//      sign of the side test, for all 27×3 cases: an edge and its reversal
//      give opposite increments, horizontal edges give 0, strictly between
//      the endpoints the crossing counts iff the point is on the left of an
//      upward / right of a downward edge, and the crossing rule is half-open
//      with the SAME closed end for upward and downward edges (a vertex level
//      is counted exactly once per edge chain)
//  W2  qtNode.winding visits, for every sign of (p − centre), exactly the
//      children of the point's row from its column rightwards (+x ray)
//  W3  Box2.lineIntersect: segments lying on the box's top / right edge are
//      rejected before anything else can return them, those on bottom / left
//      are kept — the half-open ownership that matches where W2 sends points
//      lying exactly on a split line
//  W4  the accelerated and the brute-force evaluation share the per-segment
//      kernels and the final sign rule
//
//  W5  (float-faithful) the four child boxes tile the parent exactly
//  W6  (float-faithful) Box2.lineIntersect: the candidate point for the parameter values 0 and
//      1 is the segment's own end point, bit for bit. The pieces of one edge in neighbouring
//      leaves then chain through identical points, and the half-open rule of W1 counts a
//      vertex level exactly once; an end point rebuilt as u + (l[1]-u) can land an ulp off
//      the vertex and the crossing at that level is lost or doubled.
//  W7  Box2.lineFilter hands to lineIntersect every segment that the box can own: a test in
//      front of the clipper may only drop segments that lie beyond the box or merely touch it
//      from outside; a segment lying on the bottom / left edge is owned (W3) and must get through
//  W8  tAppend merges line parameters that differ by rounding only: the parameter of an end point
//      lying on a box edge is computed as (edge - u)·(1/v), one ulp off the literal 0 / 1 it
//      duplicates (49·(1/49) = 0.9999999999999999); kept apart, the box sees three candidate
//      points and drops the piece
//  W9  qtNode.minDist2: the search over the children is left early only when the distance found
//      is zero (any other cut-off returns a distance that a later child could still lower)
//  W10 convertLines keeps every segment of a leaf (a filter opens the outline: the winding of
//      every point level with the dropped segment is off by one)
//
// Not decided: distances (clipping tolerance, pruning by box distance, search order).

import (
	"fmt"
	"go/constant"
	"go/token"
	"go/types"
	"math"
	"math/big"
	"os"
	"sort"
	"strings"

	"golang.org/x/tools/go/ssa"
)

func init() { register("C04", checkC04) }

func checkC04(ctx *Ctx, r *Report, tier string) {
	r.Explain = "The ray-crossing rule of the polygon SDF is decided exhaustively over the finite sign/order domain it depends on (orderings of the two endpoint heights and the query height, sign of the side test); the quadtree's child selection is decided for every sign of the point relative to the split lines and cross-checked with the half-open edge ownership of the segment clipping; the fast and the brute-force paths are shown to share kernels and sign rule. Distances (clipping tolerance, box-distance pruning) are numerical and not decided. The quadtree child boxes tile their parent bit for bit, clipped pieces end in the segment's own end points, every segment a box can own reaches the clipper, line parameters an ulp apart are merged, the distance search is cut short only at distance zero and every segment of a leaf is kept."
	r.Exhaust = true
	r.Trusted = []string{"go/types", "go/ssa", "sdfxlint gated symbolic evaluator"}
	r.Assume = []string{"polygons are simple and closed"}
	checkWindingRule(ctx, r, ctx.ssaFunc("sdf", "(*lineInfo).winding"), "sdf.lineInfo.winding")
	if cf := ctx.ssaFunc("sdf", "(*verifCtlLineInfo).winding"); cf != nil {
		checkWindingRule(ctx, r, cf, "verifCtlLineInfo.winding")
		r.expectControl("W1", "verifCtlLineInfo.winding")
	}
	closedLower := windingConvention
	checkQuadtreeWinding(ctx, r, closedLower)
	checkLineOwnership(ctx, r)
	checkSharedKernels(ctx, r)
	r.floor("W1", 4)
	r.floor("W2", 5)
	r.floor("W3", 4)
	r.floor("W4", 3)
	checkQuadTiling(ctx, r)
	r.floor("W5", 5)
	checkClipEndpoints(ctx, r)
	checkClipPrefilter(ctx, r)
	checkParameterMerging(ctx, r)
	checkEveryLineConverted(ctx, r)
	checkDistanceSearchExits(ctx, r)
	checkBuildKeepsNoSharedState(ctx, r)
	checkWindingTraversalTests(ctx, r)
	checkSegmentRecord(ctx, r)
	checkClosingEdge(ctx, r)
	checkOwnershipWithinSnap(ctx, r)
	checkSquaredDistanceIsASumOfSquares(ctx, r)
	checkSnapPerAxis(ctx, r)
	checkUnclippedPiecesAreSnapped(ctx, r)
	checkBoxDistanceBound(ctx, r)
}

var windingConvention = true // lower endpoint closed (set by W1 on the real function)

func checkWindingRule(ctx *Ctx, r *Report, fn *ssa.Function, key string) {
	if fn == nil {
		r.undecided("W1", key, 0, "function not found")
		return
	}
	ev := newEval(ctx)
	res, _ := ev.evalRoot(fn)
	t, _ := res.(*Term)
	if t == nil {
		r.undecided("W1", key, fn.Pos(), "result not scalar")
		return
	}
	recv, p := paramName(fn, 0), paramName(fn, 1)
	// the side test: the polynomial compared with 0
	var side *Term
	for _, c := range condAtoms(t) {
		if c.Op == "cmp" && (c.Args[1].IsZero() || c.Args[0].IsZero()) {
			s := c.Args[0]
			if s.IsZero() {
				s = c.Args[1]
			}
			if side == nil {
				side = s
			} else if side.Key() != s.Key() {
				r.undecided("W1", key, fn.Pos(), "two different side tests")
				return
			}
		}
	}
	if side == nil {
		r.undecided("W1", key, fn.Pos(), "no side test found")
		return
	}
	// dn = (p − a0)·(u.Y, −u.X): negative on the left of the directed edge
	a0x, a0y := A(recv+".line[0].X"), A(recv+".line[0].Y")
	wantSide := Sub(Mul(Sub(A(p+".X"), a0x), A(recv+".unitVector.Y")), Mul(Sub(A(p+".Y"), a0y), A(recv+".unitVector.X")))
	sideSign := 0
	if equalRat(side, wantSide) {
		sideSign = 1
	} else if equalRat(side, Neg(wantSide)) {
		sideSign = -1
	}
	r.check("W1", key+"|side-test-is-the-edge-normal-component", fn.Pos(), sideSign != 0, "side = (p−a0)·(u.y, −u.x) up to sign; found "+shortKey(side.Key(), 160))
	if sideSign == 0 {
		return
	}
	g := substKeys(t, map[string]*Term{side.Key(): A("SIDE")})
	leaves, ok := orderLeaves(g)
	if !ok {
		r.undecided("W1", key, fn.Pos(), "not comparison-only after abstracting the side test")
		return
	}
	ay, by, py := recv+".line[0].Y", recv+".line[1].Y", p+".Y"
	for _, l := range leaves {
		k := l.Key()
		if k != ay && k != by && k != py && k != "SIDE" {
			r.undecided("W1", key, fn.Pos(), "unexpected value compared: "+k)
			return
		}
	}
	w := func(a, b, y, s int) int {
		env := map[string]*big.Rat{ay: big.NewRat(int64(a), 1), by: big.NewRat(int64(b), 1), py: big.NewRat(int64(y), 1), "SIDE": big.NewRat(int64(s*sideSign), 1)}
		return int(evalT(g, env).Num().Int64())
	}
	// s: -1 = p on the left of the directed edge a->b, +1 = on the right
	okRev, okHoriz, okInner := true, true, true
	detail := ""
	n := 0
	for a := 0; a < 3; a++ {
		for b := 0; b < 3; b++ {
			for y := 0; y < 3; y++ {
				for s := -1; s <= 1; s++ {
					n++
					v := w(a, b, y, s)
					// reversal: endpoints swap, the left side becomes the right side
					if v != -w(b, a, y, -s) {
						okRev = false
						detail += fmt.Sprintf(" [w(%d,%d;y=%d;s=%d)=%d but reversed=%d]", a, b, y, s, v, w(b, a, y, -s))
					}
					if a == b && v != 0 {
						okHoriz = false
					}
					lo, hi := a, b
					if lo > hi {
						lo, hi = hi, lo
					}
					if a != b && y > lo && y < hi {
						want := 0
						if b > a && s < 0 {
							want = 1
						}
						if b < a && s > 0 {
							want = -1
						}
						if v != want {
							okInner = false
							detail += fmt.Sprintf(" [inner w(%d,%d;y=%d;s=%d)=%d want %d]", a, b, y, s, v, want)
						}
					}
					if a != b && (y < lo || y > hi) && v != 0 {
						okInner = false
						detail += fmt.Sprintf(" [outside the edge's height range w(%d,%d;y=%d)=%d]", a, b, y, v)
					}
				}
			}
		}
	}
	r.Counts["winding_cases"] += n
	r.check("W1", key+"|reversed-edge-gives-opposite-increment", fn.Pos(), okRev, "for all 81 cases"+detail)
	r.check("W1", key+"|horizontal-edges-count-zero", fn.Pos(), okHoriz, "an edge level with the query never counts")
	r.check("W1", key+"|crossing-counts-iff-point-is-on-the-inner-side", fn.Pos(), okInner, "strictly inside the height range: +1 for an upward edge with p on its left, −1 for a downward edge with p on its right, 0 otherwise;"+detail)
	// half-open convention
	upLo, upHi := w(0, 2, 0, -1) != 0, w(0, 2, 2, -1) != 0
	dnLo, dnHi := w(2, 0, 0, 1) != 0, w(2, 0, 2, 1) != 0
	okHalf := upLo != upHi && dnLo == upLo && dnHi == upHi
	r.check("W1", key+"|half-open-with-the-same-closed-end-for-both-directions", fn.Pos(), okHalf,
		fmt.Sprintf("counts at the lower/upper endpoint level: upward edge %v/%v, downward edge %v/%v (exactly one end must count, the same one for both)", upLo, upHi, dnLo, dnHi))
	if !strings.HasPrefix(key, "verifCtl") {
		windingConvention = upLo
	}
}

func checkQuadtreeWinding(ctx *Ctx, r *Report, lowerClosed bool) {
	fn := ctx.ssaFunc("sdf", "(*qtNode).winding")
	if fn == nil {
		r.undecided("W2", "qtNode.winding", 0, "not found")
		return
	}
	node, p := paramName(fn, 0), paramName(fn, 1)
	// first pass: which comparisons does the function branch on?
	ev0 := newEval(ctx, "(*sdf.lineInfo).winding")
	ev0.evalRoot(fn)
	side := func(ax string) *Term {
		// the test of p.ax against the centre: p.ax − centre.ax < 0, in any equivalent spelling
		d := Sub(A(p+"."+ax), A(node+".center."+ax))
		for _, c := range ev0.BranchConds {
			if c.S == "<" && c.Args[1].IsZero() && equalRat(c.Args[0], d) {
				return c
			}
			if c.S == "<" && equalRat(Sub(c.Args[0], c.Args[1]), d) {
				return c
			}
		}
		return nil
	}
	qx, qy := side("X"), side("Y")
	r.check("W2", "qtNode.winding|split-line-points-go-to-the-upper-right-children", fn.Pos(), qx != nil && qy != nil, "the two routing tests are p.k − centre.k < 0 (strict): a point exactly on a split line is handled by the child whose Min edge is that line (must agree with W3)")
	if qx == nil || qy == nil {
		return
	}
	for _, xl := range []bool{true, false} {
		for _, yl := range []bool{true, false} {
			// second pass: the function specialised to this position class
			ev := newEval(ctx, "(*sdf.lineInfo).winding")
			ev.assume = map[string]bool{qx.Key(): xl, qy.Key(): yl}
			ev.evalRoot(fn)
			visited := map[int]bool{}
			for _, e := range ev.Events {
				if !(strings.HasPrefix(e.Callee, "rec:") && strings.HasSuffix(e.Callee, ".winding")) {
					continue
				}
				if e.Cond != nil && e.Cond.IsZero() {
					continue
				}
				s, _ := e.Args[0].(*Sym)
				if s == nil || !strings.Contains(s.Path, "[") {
					visited[-1] = true // a child that is not node.child[k] with constant k
					continue
				}
				var k int
				if _, err := fmt.Sscanf(s.Path[strings.LastIndex(s.Path, "["):], "[%d]", &k); err == nil {
					visited[k] = true
				} else {
					visited[-1] = true
				}
			}
			// children: 0 sw, 1 se, 2 nw, 3 ne
			want := map[int]bool{}
			row := 2
			if yl {
				row = 0
			}
			if xl {
				want[row] = true
			}
			want[row+1] = true
			r.check("W2", fmt.Sprintf("qtNode.winding|p-left-of-centre=%v|p-below-centre=%v", xl, yl), fn.Pos(), fmt.Sprint(visited) == fmt.Sprint(want),
				fmt.Sprintf("children visited %v, expected %v (own row, own column and everything to the right: the ray goes towards +x)", sortedInts(visited), sortedInts(want)))
		}
	}
}

func sortedInts(m map[int]bool) []int {
	var out []int
	for k := 0; k < 8; k++ {
		if m[k] {
			out = append(out, k)
		}
	}
	return out
}

func checkLineOwnership(ctx *Ctx, r *Report) {
	fn := ctx.ssaFunc("sdf", "(*Box2).lineIntersect")
	if fn == nil {
		r.undecided("W3", "Box2.lineIntersect", 0, "not found")
		return
	}
	ev := newEval(ctx)
	ev.evalRoot(fn)
	box, l := paramName(fn, 0), paramName(fn, 1)
	horiz := Cmp("==", Sub(A(l+"[1].Y"), A(l+"[0].Y")), K(0))
	vert := Cmp("==", Sub(A(l+"[1].X"), A(l+"[0].X")), K(0))
	onTop := Cmp("==", A(l+"[0].Y"), A(box+".Max.Y"))
	onRight := Cmp("==", A(l+"[0].X"), A(box+".Max.X"))
	onBottom := Cmp("==", A(l+"[0].Y"), A(box+".Min.Y"))
	onLeft := Cmp("==", A(l+"[0].X"), A(box+".Min.X"))
	nonNil := 0
	okTop, okRight := true, true
	keptBottom, keptLeft := false, false
	for _, alt := range ev.RootRets {
		if _, isNil := alt.Val.(Nil); isNil {
			continue
		}
		nonNil++
		c := alt.Cond
		if !assume(c, map[string]bool{horiz.Key(): true, onTop.Key(): true}).IsZero() {
			okTop = false
		}
		if !assume(c, map[string]bool{vert.Key(): true, onRight.Key(): true}).IsZero() {
			okRight = false
		}
		// a segment on the bottom / left edge still has a way to be returned
		if !assume(c, map[string]bool{horiz.Key(): true, onBottom.Key(): true, onTop.Key(): false}).IsZero() {
			keptBottom = true
		}
		if !assume(c, map[string]bool{vert.Key(): true, onLeft.Key(): true, onRight.Key(): false}).IsZero() {
			keptLeft = true
		}
	}
	usesMin := !(keptBottom && keptLeft)
	r.check("W3", "Box2.lineIntersect|returns-a-segment", fn.Pos(), nonNil >= 2, fmt.Sprintf("%d non-nil return paths", nonNil))
	r.check("W3", "Box2.lineIntersect|horizontal-segment-on-the-top-edge-is-never-returned", fn.Pos(), okTop, "every non-nil return must be unreachable when the segment is horizontal and lies on Max.Y (it belongs to the box above)")
	r.check("W3", "Box2.lineIntersect|vertical-segment-on-the-right-edge-is-never-returned", fn.Pos(), okRight, "every non-nil return must be unreachable when the segment is vertical and lies on Max.X (it belongs to the box to the right)")
	r.check("W3", "Box2.lineIntersect|bottom-and-left-edges-are-kept", fn.Pos(), !usesMin, "no return path excludes segments on Min.Y / Min.X: the lower-left child owns its bottom and left edges, matching W2")
}

func checkSharedKernels(ctx *Ctx, r *Report) {
	e := newFxEngine(ctx)
	fast := ctx.ssaFunc("sdf", "(*MeshSDF2).Evaluate")
	slow := ctx.ssaFunc("sdf", "(*MeshSDF2Slow).Evaluate")
	if fast == nil || slow == nil {
		r.undecided("W4", "MeshSDF2.Evaluate", 0, "not found")
		return
	}
	kw := ctx.ssaFunc("sdf", "(*lineInfo).winding")
	kd := ctx.ssaFunc("sdf", "(*lineInfo).minDistance2")
	rf := reachFrom(e, []*ssa.Function{fast}, false)
	rs := reachFrom(e, []*ssa.Function{slow}, false)
	r.check("W4", "fast-and-slow-share-the-winding-kernel", fast.Pos(), kw != nil && rf[kw] && rs[kw], "both paths count crossings with lineInfo.winding")
	r.check("W4", "fast-and-slow-share-the-distance-kernel", fast.Pos(), kd != nil && rf[kd] && rs[kd], "both paths measure with lineInfo.minDistance2")
	// final sign rule
	form := func(fn *ssa.Function) string {
		ev := newEval(ctx, "winding", "minDist2", "minDistance2")
		res, _ := ev.evalRoot(fn)
		t, _ := res.(*Term)
		if t == nil || t.Op != "ite" {
			return "?"
		}
		c := t.Args[0]
		a, b := t.Args[1], t.Args[2]
		// wn != 0 is represented as !(wn == 0); the mirrored form `wn == 0 ? √ : −√` is the same rule
		if c.Op == "not" {
			c = c.Args[0]
		} else {
			a, b = b, a
		}
		if c.Op != "cmp" || c.S != "==" || !(c.Args[1].IsZero() || c.Args[0].IsZero()) {
			return "cond:" + shortKey(t.Args[0].Key(), 60)
		}
		sq := func(x *Term) bool { return x.Op == "call" && x.S == "math.Sqrt" }
		if a.Op == "*" && sq(b) && equalRat(a, Neg(b)) {
			return "inside-negative"
		}
		return "other"
	}
	ff, fs := form(fast), form(slow)
	r.check("W4", "final-sign-rule-identical", fast.Pos(), ff == "inside-negative" && fs == ff, fmt.Sprintf("result = (wn != 0) ? −√d² : √d² in both; fast: %s, slow: %s", ff, fs))
}

// ---------------------------------------------------------------- W5: exact tiling

// checkQuadTiling: the four child boxes of a quadtree node must tile the node's box exactly in
// floating point, and the split lines must be the coordinates of the node's centre (which
// qtNode.winding routes on): a crossing segment is clipped into the children, so a child edge
// that is rounded differently from its neighbour's or from its parent's edge leaves a sliver
// one ulp wide that belongs to no leaf, and a ray cast inside the sliver misses the crossings
// of that column: enclosed points come back positive. Decided on float-faithful terms (the
// operations as performed, no re-association): each shared coordinate must be ONE expression.
func checkQuadTiling(ctx *Ctx, r *Report) {
	eval := func(name string) map[string]*Term {
		fn := ctx.ssaFunc("sdf", "(Box2)."+name)
		if fn == nil {
			return nil
		}
		ev := newEval(ctx)
		ev.faithful = true
		res, _ := ev.evalRoot(fn)
		m := map[string]*Term{}
		leafTerms("", res, m)
		return m
	}
	c := eval("Center")
	if c == nil || c[".X"] == nil || c[".Y"] == nil {
		r.undecided("W5", "Box2.Center", 0, "not found or not a closed form")
		return
	}
	build := ctx.ssaFunc("sdf", "qtBuild")
	if build != nil {
		usesCenter := false
		allInstrs(build, func(b *ssa.BasicBlock, ins ssa.Instruction) {
			if call, ok := ins.(*ssa.Call); ok {
				if f := call.Call.StaticCallee(); f != nil && f.Name() == "Center" {
					usesCenter = true
				}
			}
		})
		r.check("W5", "qtBuild|routing-centre-is-Box2.Center", build.Pos(), usesCenter, "the node centre that winding() routes on is box.Center()")
	} else {
		r.undecided("W5", "qtBuild", 0, "not found")
	}
	aMinX, aMinY, aMaxX, aMaxY := A("a.Min.X"), A("a.Min.Y"), A("a.Max.X"), A("a.Max.Y")
	want := map[string][4]*Term{ // Min.X, Min.Y, Max.X, Max.Y
		"quad0": {aMinX, aMinY, c[".X"], c[".Y"]},
		"quad1": {c[".X"], aMinY, aMaxX, c[".Y"]},
		"quad2": {aMinX, c[".Y"], c[".X"], aMaxY},
		"quad3": {c[".X"], c[".Y"], aMaxX, aMaxY},
	}
	for _, q := range []string{"quad0", "quad1", "quad2", "quad3"} {
		m := eval(q)
		if m == nil {
			r.undecided("W5", "Box2."+q, 0, "not found")
			continue
		}
		ok := true
		detail := ""
		for i, f := range []string{".Min.X", ".Min.Y", ".Max.X", ".Max.Y"} {
			got := m[f]
			if got == nil || got.Key() != want[q][i].Key() {
				ok = false
				g := "?"
				if got != nil {
					g = shortKey(got.Key(), 90)
				}
				detail += fmt.Sprintf(" %s is computed as %s, the neighbouring edge as %s;", f[1:], g, shortKey(want[q][i].Key(), 90))
			}
		}
		r.check("W5", "Box2."+q+"|shares-its-edges-with-parent-and-siblings", ctx.ssaFunc("sdf", "(Box2)."+q).Pos(), ok, "outer edges are the parent's own coordinates, inner edges the centre's (same floating-point expression on both sides);"+detail)
	}
}

// ---------------------------------------------------------------- W6

// checkClipEndpoints: in lineIntersect every candidate point is a function P(t) of the line
// parameter; the candidates include t = 0 and t = 1 (the slice literal the parameter set starts
// from). Substituting those into the float-faithful term of P must give l[0] and l[1].
func checkClipEndpoints(ctx *Ctx, r *Report) {
	fn := ctx.ssaFunc("sdf", "(*Box2).lineIntersect")
	if fn == nil {
		r.undecided("W6", "Box2.lineIntersect", 0, "not found")
		return
	}
	// do the candidates start from the literal {0, 1}?
	has := map[string]bool{}
	allInstrs(fn, func(b *ssa.BasicBlock, ins ssa.Instruction) {
		st, ok := ins.(*ssa.Store)
		if !ok {
			return
		}
		c, ok := st.Val.(*ssa.Const)
		if !ok || c.Value == nil {
			return
		}
		if ia, ok := st.Addr.(*ssa.IndexAddr); ok {
			if _, isAlloc := ia.X.(*ssa.Alloc); isAlloc {
				if q, ok := constantToRat(c.Value); ok && q.IsInt() {
					has[q.Num().String()] = true
				}
			}
		}
	})
	if !has["0"] || !has["1"] {
		r.check("W6", "Box2.lineIntersect|end-points-kept", fn.Pos(), true, "the parameter set does not start from the literal {0, 1}: end points are not rebuilt from parameters (rule not applicable to this shape)")
		return
	}
	ev := newEval(ctx, "Snap", "tAppend", "Contains")
	ev.faithful = true
	ev.evalRoot(fn)
	if ev.Exceeded {
		r.undecided("W6", "Box2.lineIntersect", fn.Pos(), "evaluation budget exceeded")
		return
	}
	// the candidate points: what is handed to Snap (the point computed from the parameter), or,
	// without a snap, what is appended to a slice of points
	var cand []*Term // X, Y of each candidate
	for _, e := range eventsOf(ev, ".Snap") {
		for _, a := range e.Args {
			if pt := pointTerms(a, 2); pt != nil {
				// a snap of an end point itself (the segment inside the box) rebuilds nothing
				if pt[0].Op == "a" && pt[1].Op == "a" && strings.HasPrefix(pt[0].S, paramName(fn, 1)+"[") && strings.HasPrefix(pt[1].S, paramName(fn, 1)+"[") {
					break
				}
				cand = append(cand, pt...)
				break
			}
		}
	}
	for _, e := range eventsOf(ev, "append") {
		if len(cand) > 0 {
			break
		}
		for _, v := range appendedVals(e) {
			var xy []*Term
			switch x := v.(type) {
			case *Sym:
				if x.Call != nil && strings.HasSuffix(x.Call.S, ".Snap") && len(x.Call.Args) >= 2 && x.Call.Args[1].Op == "agg" && len(x.Call.Args[1].Args) == 2 {
					xy = x.Call.Args[1].Args // snapping onto the box edge is the tolerance design, not this rule
				}
			case *Agg:
				if len(x.Elems) == 2 {
					a, ok1 := x.Elems[0].(*Term)
					b, ok2 := x.Elems[1].(*Term)
					if ok1 && ok2 {
						xy = []*Term{a, b}
					}
				}
			}
			if xy != nil {
				cand = append(cand, xy...)
			}
		}
	}
	if len(cand) < 2 {
		r.undecided("W6", "Box2.lineIntersect", fn.Pos(), "no candidate point of the form P(t) found (neither an argument of Snap nor an appended value)")
		return
	}
	for i, comp := range []string{"X", "Y"} {
		P := cand[i]
		// the parameter: the one subterm that is neither an end point nor a box coordinate
		params := map[string]*Term{}
		for _, s := range findSub(P, func(x *Term) bool { return x.Op == "sel" }) {
			params[s.Key()] = s
		}
		if len(params) == 0 {
			for _, s := range findSub(P, func(x *Term) bool {
				return x.Op == "a" && !strings.HasPrefix(x.S, "l[") && !strings.HasPrefix(x.S, "a.")
			}) {
				params[s.Key()] = s
			}
		}
		if len(params) != 1 {
			r.undecided("W6", "Box2.lineIntersect|"+comp, fn.Pos(), fmt.Sprintf("candidate point is not a function of one parameter: %s", shortKey(P.Key(), 160)))
			continue
		}
		var tk string
		for k := range params {
			tk = k
		}
		for _, end := range []int64{0, 1} {
			got := substKeys(P, map[string]*Term{tk: K(end)})
			want := A(fmt.Sprintf("l[%d].%s", end, comp))
			r.check("W6", fmt.Sprintf("Box2.lineIntersect|candidate(t=%d).%s-is-l[%d].%s", end, comp, end, comp), fn.Pos(), got.Key() == want.Key(),
				fmt.Sprintf("candidate point at t=%d is computed as %s; the piece must end in the segment's own end point %s (floating point: u + (v-u) is not v)", end, shortKey(got.Key(), 120), want.Key()))
		}
	}
	r.floor("W6", 4)
}

// ---------------------------------------------------------------- W7

// checkClipPrefilter: the condition under which lineFilter reaches lineIntersect, as a
// comparison-only term over the segment's end points and the box, is evaluated for every weak
// ordering of {x0, x1, Min.X, Max.X} x {y0, y1, Min.Y, Max.Y} (values 0..3 on each axis). Whenever
// the segment can be owned by the box - it reaches below Max on both axes and, on each axis,
// either reaches above Min or lies exactly on Min - the clipper must be called.
func checkClipPrefilter(ctx *Ctx, r *Report) {
	// the functions that hand segments to the clipper: lineFilter, or whatever replaces it
	var fns []*ssa.Function
	for _, f := range ctx.srcFuncs("sdf") {
		if len(f.Blocks) == 0 || f.Name() == "lineIntersect" {
			continue
		}
		calls := false
		allInstrs(f, func(_ *ssa.BasicBlock, ins ssa.Instruction) {
			if c, ok := ins.(*ssa.Call); ok {
				if g := c.Call.StaticCallee(); g != nil && g.Name() == "lineIntersect" && inModule(g) {
					calls = true
				}
			}
		})
		if calls {
			fns = append(fns, f)
		}
	}
	if len(fns) == 0 {
		r.undecided("W7", "Box2.lineFilter", 0, "no caller of lineIntersect found")
		return
	}
	for _, fn := range fns {
		clipPrefilterOf(ctx, r, fn)
	}
	r.floor("W7", 1)
}

func clipPrefilterOf(ctx *Ctx, r *Report, fn *ssa.Function) {
	ev := newEval(ctx, "lineIntersect")
	ev.evalRoot(fn)
	es := eventsOf(ev, ".lineIntersect")
	if len(es) == 0 || ev.Exceeded {
		r.undecided("W7", "Box2.lineFilter", fn.Pos(), fmt.Sprintf("%d calls of lineIntersect in %s", len(es), shortFn(fn)))
		return
	}
	e := es[0]
	seg := ""
	for _, a := range e.Args {
		if s, ok := a.(*Sym); ok && s.Idx != nil {
			seg = s.Path
		}
	}
	box := paramName(fn, 0)
	// several boxes clipped in one pass (a constant-trip inner loop): every call is unguarded or the rule gives up
	if len(es) > 1 {
		for _, e2 := range es {
			for _, c := range conjuncts(e2.Cond) {
				if !strings.Contains(c.Key(), "len(") {
					r.undecided("W7", "Box2.lineFilter", e2.Pos, "several clipper calls with tests in front of them: "+shortKey(c.Key(), 120))
					return
				}
			}
		}
	}
	var guards []*Term
	for _, c := range conjuncts(e.Cond) {
		if strings.Contains(c.Key(), "len(") {
			continue // the loop's own test
		}
		guards = append(guards, c)
	}
	if len(guards) == 0 {
		r.check("W7", "Box2.lineFilter|owned-segments-reach-the-clipper", e.Pos, true, "every segment of the set is handed to lineIntersect")
		r.floor("W7", 1)
		return
	}
	if seg == "" {
		r.undecided("W7", "Box2.lineFilter", e.Pos, "the clipped segment is not an element of the set")
		return
	}
	names := map[string]string{
		seg + "[0].X": "x0", seg + "[1].X": "x1", seg + "[0].Y": "y0", seg + "[1].Y": "y1",
		box + ".Min.X": "mx", box + ".Max.X": "Mx", box + ".Min.Y": "my", box + ".Max.Y": "My",
	}
	for _, g := range guards {
		for _, a := range atomList(g) {
			if _, ok := names[a]; !ok {
				r.undecided("W7", "Box2.lineFilter", e.Pos, "the test in front of the clipper reads "+shortKey(a, 80)+": outside the fragment (end points and box corners)")
				return
			}
		}
	}
	bad, cases := "", 0
	v := make([]int64, 8) // x0 x1 mx Mx y0 y1 my My
	var rec func(i int)
	undecidable := false
	rec = func(i int) {
		if undecidable {
			return
		}
		if i == 8 {
			x0, x1, mx, Mx, y0, y1, my, My := v[0], v[1], v[2], v[3], v[4], v[5], v[6], v[7]
			if mx >= Mx || my >= My {
				return
			}
			minx, maxx, miny, maxy := min(x0, x1), max(x0, x1), min(y0, y1), max(y0, y1)
			owned := minx < Mx && miny < My && (maxx > mx || (maxx == mx && minx == maxx)) && (maxy > my || (maxy == my && miny == maxy))
			if !owned || (x0 == x1 && y0 == y1) {
				return
			}
			cases++
			env := map[string]*big.Rat{}
			for a, nm := range names {
				idx := map[string]int{"x0": 0, "x1": 1, "mx": 2, "Mx": 3, "y0": 4, "y1": 5, "my": 6, "My": 7}[nm]
				env[a] = big.NewRat(v[idx], 1)
			}
			func() {
				defer func() {
					if recover() != nil {
						undecidable = true
					}
				}()
				for _, g := range guards {
					if evalT(g, env).Sign() == 0 && len(bad) < 200 {
						bad += fmt.Sprintf(" segment (%d,%d)-(%d,%d) in box [%d,%d]x[%d,%d] is dropped;", x0, y0, x1, y1, mx, Mx, my, My)
					}
				}
			}()
			return
		}
		for k := int64(0); k < 4; k++ {
			v[i] = k
			rec(i + 1)
		}
	}
	rec(0)
	if undecidable {
		r.undecided("W7", "Box2.lineFilter", e.Pos, "the test in front of the clipper is not comparison-only")
		return
	}
	r.Counts["prefilter_cases"] = cases
	r.check("W7", "Box2.lineFilter|owned-segments-reach-the-clipper", e.Pos, bad == "", fmt.Sprintf("%d order cases in which the box can own the segment (bottom/left edges included): the clipper must be reached;%s", cases, bad))
	r.floor("W7", 1)
}

// ---------------------------------------------------------------- W8

// checkParameterMerging: the test under which tAppend leaves the set unchanged because the
// parameter is already there is evaluated (exact rational arithmetic on its closed form) for a
// stored parameter 1 and a new one an ulp below: it must hold.
func checkParameterMerging(ctx *Ctx, r *Report) {
	fn := ctx.ssaFunc("sdf", "tAppend")
	if fn == nil {
		r.undecided("W8", "tAppend", 0, "not found")
		return
	}
	ev := newEval(ctx)
	ev.evalRoot(fn)
	set, tn := paramName(fn, 0), paramName(fn, 1)
	var dup *Term
	for _, alt := range ev.RootRets {
		if valKey(alt.Val) != "sym:"+set || alt.Cond == nil {
			continue
		}
		cs := conjuncts(alt.Cond)
		if len(cs) == 0 {
			continue
		}
		last := cs[len(cs)-1]
		if len(findSub(last, func(x *Term) bool { return x.Op == "sel" && x.S == set })) > 0 {
			dup = last
		}
	}
	if dup == nil || ev.Exceeded {
		r.undecided("W8", "tAppend", fn.Pos(), "no return of the unchanged set that depends on a stored parameter")
		return
	}
	ulp := new(big.Rat).SetFrac64(1, 1<<53)
	below := new(big.Rat).Sub(big.NewRat(1, 1), ulp)
	env := map[string]*big.Rat{tn: below}
	for _, s := range findSub(dup, func(x *Term) bool { return x.Op == "sel" && x.S == set }) {
		env[s.Key()] = big.NewRat(1, 1)
	}
	ok, why := false, ""
	func() {
		defer func() {
			if e := recover(); e != nil {
				why = fmt.Sprint(e)
			}
		}()
		ok = evalT(dup, env).Sign() != 0
	}()
	if why != "" {
		r.undecided("W8", "tAppend", fn.Pos(), "duplicate test outside the fragment: "+why)
		return
	}
	r.check("W8", "tAppend|parameters-an-ulp-apart-are-one-candidate", fn.Pos(), ok, "stored 1, new 1-2^-53 (what (edge-u)*(1/v) gives for an end point on the edge): must count as already present; test: "+shortKey(dup.Key(), 160))
	r.floor("W8", 1)
}

// ---------------------------------------------------------------- W10 / W9

func checkEveryLineConverted(ctx *Ctx, r *Report) {
	fn := ctx.ssaFunc("sdf", "convertLines")
	if fn == nil {
		r.undecided("W10", "convertLines", 0, "not found")
		return
	}
	n := 0
	allInstrs(fn, func(b *ssa.BasicBlock, ins ssa.Instruction) {
		v, ok := ins.(ssa.Value)
		if !ok {
			return
		}
		fillIn := false
		if c, isCall := ins.(*ssa.Call); !isCall {
			if al, isAlloc := ins.(*ssa.Alloc); !isAlloc || !al.Heap {
				return
			}
		} else if g := c.Call.StaticCallee(); g != nil && g.Signature.Results().Len() == 0 {
			// `info[i].set(l)`: the record is filled in place
			for _, a := range c.Call.Args {
				if strings.HasSuffix(a.Type().String(), "sdf.lineInfo") {
					fillIn = true
				}
			}
		}
		if !(fillIn || strings.HasSuffix(v.Type().String(), "sdf.lineInfo")) || innermostLoop(fn, b) == nil {
			return
		}
		n++
		ok2, why := everyIterationReaches(fn, ins)
		r.check("W10", fmt.Sprintf("convertLines|segment-info#%d-built-for-every-segment", n), ins.Pos(), ok2, "every segment handed to a leaf takes part in distance and winding; "+why)
	})
	if n == 0 {
		r.undecided("W10", "convertLines", fn.Pos(), "no per-segment construction found in a loop")
	}
	r.floor("W10", 1)
}

func checkDistanceSearchExits(ctx *Ctx, r *Report) {
	fn := ctx.ssaFunc("sdf", "(*qtNode).minDist2")
	if fn == nil {
		r.undecided("W9", "qtNode.minDist2", 0, "not found")
		return
	}
	n, bad := 0, ""
	var pos token.Pos = fn.Pos()
	for _, ld := range loopDescs(fn, topoAll(fn)) {
		n++
		for _, x := range ld.order {
			if x == ld.header {
				continue
			}
			for _, su := range x.Succs {
				if ld.in[su] {
					continue
				}
				// a side exit: allowed only under "the distance is zero"
				zero := false
				if iff, ok := x.Instrs[len(x.Instrs)-1].(*ssa.If); ok {
					if bo, ok := iff.Cond.(*ssa.BinOp); ok {
						isZero := func(v ssa.Value) bool {
							c, ok := v.(*ssa.Const)
							if !ok || c.Value == nil {
								return false
							}
							q, ok := constantToRat(c.Value)
							return ok && q.Sign() == 0
						}
						taken := x.Succs[0] == su // exit on the true branch
						switch {
						case isZero(bo.Y) && taken && (bo.Op == token.LEQ || bo.Op == token.EQL):
							zero = true
						case isZero(bo.X) && taken && (bo.Op == token.GEQ || bo.Op == token.EQL):
							zero = true
						case isZero(bo.Y) && !taken && (bo.Op == token.GTR || bo.Op == token.NEQ):
							zero = true
						}
						pos = bo.Pos()
					}
				}
				if !zero {
					bad += " the search over the children is left early under a condition that does not mean \"distance zero\";"
				}
			}
		}
	}
	if n == 0 {
		r.check("W9", "qtNode.minDist2|search-visits-every-child-that-can-lower-the-distance", fn.Pos(), true, "no loop: children are visited by straight-line code")
	} else {
		r.check("W9", "qtNode.minDist2|search-visits-every-child-that-can-lower-the-distance", pos, bad == "", "children are skipped only by their own box-distance test;"+bad)
	}
	r.floor("W9", 1)
}

// checkBuildKeepsNoSharedState (W11): a polygon SDF is determined by the vertices it is built
// from - also when two of them are built at the same time on different goroutines. The functions
// that build one (constructor, quadtree builder, clipping helpers) therefore keep their scratch
// data in locals: interprocedural write-effect summaries of Mesh2D, Mesh2DSlow and Polygon2D
// show no write to a package-level variable outside an exclusive lock.
func checkBuildKeepsNoSharedState(ctx *Ctx, r *Report) {
	e := newFxEngine(ctx)
	n := 0
	for _, name := range []string{"Mesh2D", "Mesh2DSlow", "Polygon2D"} {
		fn := ctx.ssaFunc("sdf", name)
		if fn == nil {
			r.undecided("W11", name, 0, "constructor not found")
			continue
		}
		s := e.summarize(fn)
		var bad []string
		for _, w := range s.writes {
			if w.root.kind == "global" && !w.guarded {
				bad = append(bad, fmt.Sprintf("%s at %s [%s]", w.root, ctx.pos(w.pos), w.why))
			}
		}
		sort.Strings(bad)
		n++
		r.check("W11", name+"|construction-writes-no-package-level-state", fn.Pos(), len(bad) == 0, "scratch data shared between two constructions corrupts both: "+strings.Join(bad, "; "))
	}
	r.floor("W11", 3)
}

// checkWindingTraversalTests (W12): the quadtree winding search decides where to go by the signs
// of the query point relative to the node's split lines and by nil tests, nothing else. The
// crossing rule is exact only because every node whose box the ray can meet is visited: a cut-off
// on a rounded extent (centre ± half side, the half side taken from one axis) disagrees by an
// ulp with the box the edges were clipped against, and a point exactly on a split line loses
// the node that owns its crossings. Decided on the SSA form: every branch of qtNode.winding is a
// comparison with nil or with the constant 0, a boolean combination of such, or a loop test.
func checkWindingTraversalTests(ctx *Ctx, r *Report) {
	fn := ctx.ssaFunc("sdf", "(*qtNode).winding")
	if fn == nil {
		r.undecided("W12", "qtNode.winding", 0, "not found")
		return
	}
	var plain func(v ssa.Value, seen map[ssa.Value]bool) bool
	plain = func(v ssa.Value, seen map[ssa.Value]bool) bool {
		if seen[v] {
			return true
		}
		seen[v] = true
		switch x := v.(type) {
		case *ssa.Const:
			return true
		case *ssa.UnOp:
			return x.Op == token.NOT && plain(x.X, seen)
		case *ssa.Phi:
			for _, e := range x.Edges {
				if !plain(e, seen) {
					return false
				}
			}
			return true
		case *ssa.BinOp:
			switch x.Op {
			case token.LSS, token.LEQ, token.GTR, token.GEQ, token.EQL, token.NEQ:
				for _, side := range []ssa.Value{x.X, x.Y} {
					if k, ok := side.(*ssa.Const); ok {
						if k.IsNil() {
							return true
						}
						if k.Value != nil && (k.Value.Kind() == constant.Int || k.Value.Kind() == constant.Float) && constant.Sign(k.Value) == 0 {
							return true
						}
					}
				}
			}
		}
		return false
	}
	n, bad := 0, ""
	loops := loopDescs(fn, topoAll(fn))
	for _, b := range fn.Blocks {
		iff, ok := b.Instrs[len(b.Instrs)-1].(*ssa.If)
		if !ok {
			continue
		}
		if ld := loops[b]; ld != nil && ld.header == b {
			continue // the test of the loop over the leaf's segments
		}
		n++
		if !plain(iff.Cond, map[ssa.Value]bool{}) {
			bad += " the branch at " + ctx.pos(branchPos(b, iff)) + " is neither a nil test nor a sign test;"
		}
	}
	r.check("W12", "qtNode.winding|traversal-decided-by-signs-and-nil-tests-only", fn.Pos(), bad == "" && n >= 3, fmt.Sprintf("%d branches;%s", n, bad))
	r.floor("W12", 1)
}

// checkSegmentRecord (W13): the record built for a segment keeps the edge's own direction: the
// stored unit vector times the stored length is the edge vector, with no case distinction. A
// "clean-up" that zeroes small components turns an edge that rises by a few ulps (trigonometric
// vertices do that) into a horizontal one for the side test while the crossing rule still sees
// it rise: the half-open rule then miscounts on the level of its lower end.
func checkSegmentRecord(ctx *Ctx, r *Report) {
	fn := segmentRecordBuilder(ctx)
	if fn == nil {
		r.undecided("W13", "newLineInfo", 0, "not found")
		return
	}
	ev := newEval(ctx)
	res, st := ev.evalRoot(fn)
	segIdx, recIdx := -1, -1
	for i, p := range fn.Params {
		ts := p.Type().String()
		switch {
		case strings.HasSuffix(ts, "sdf.Line2") && segIdx < 0:
			segIdx = i
		case strings.HasSuffix(ts, "sdf.lineInfo") && recIdx < 0:
			recIdx = i
		}
	}
	if segIdx < 0 {
		r.undecided("W13", shortFn(fn), fn.Pos(), "no segment parameter")
		return
	}
	obj, ok := resultObject(res, st)
	if !ok && recIdx >= 0 {
		// the record is filled in place (a method of the record)
		for o, v := range st.mem {
			if ag, isAgg := v.(*Agg); isAgg && ag.T != nil && o.name == paramName(fn, recIdx) && strings.HasSuffix(ag.T.String(), "sdf.lineInfo") {
				obj, ok = v, true
			}
		}
	}
	if !ok {
		r.undecided("W13", "newLineInfo", fn.Pos(), "the result is not a fresh record")
		return
	}
	m := map[string]*Term{}
	leafTerms("", obj, m)
	if os.Getenv("SDFXLINT_DEBUG") != "" {
		fmt.Fprintln(os.Stderr, "DBG W13", shortFn(fn), segIdx, recIdx, valKey(obj))
		for o, v := range st.mem {
			fmt.Fprintln(os.Stderr, "DBG mem", o.name, shortKey(valKey(v), 200))
		}
	}
	l := paramName(fn, segIdx)
	bad := ""
	var length *Term
	for k, t := range m {
		if strings.Contains(strings.ToLower(k), "length") {
			length = t
		}
	}
	for _, ax := range []string{"X", "Y"} {
		var u *Term
		for k, t := range m {
			if strings.HasSuffix(k, "."+ax) && strings.Contains(strings.ToLower(k), "unit") {
				u = t
			}
		}
		d := Sub(A(l+"[1]."+ax), A(l+"[0]."+ax))
		switch {
		case u == nil || length == nil:
			bad += " no unit vector / length field found;"
		case len(findSub(u, func(x *Term) bool { return x.Op == "ite" || x.Op == "cmp" })) > 0:
			bad += " direction." + ax + " depends on a test: " + shortKey(u.Key(), 120) + ";"
		case !equalRat(Mul(u, length), d):
			bad += " direction." + ax + "·length is not the edge vector: " + shortKey(u.Key(), 120) + ";"
		}
	}
	r.check("W13", "newLineInfo|direction-is-the-normalised-edge-vector", fn.Pos(), bad == "", "unitVector·length ≡ l[1] − l[0] on both axes, no case distinction;"+bad)
	r.floor("W13", 1)
}

// segmentRecordBuilder: the function that fills the per-segment record of the polygon SDF -
// newLineInfo, or whatever convertLines calls with a record or to get one.
func segmentRecordBuilder(ctx *Ctx) *ssa.Function {
	if fn := ctx.ssaFunc("sdf", "newLineInfo"); fn != nil {
		return fn
	}
	cl := ctx.ssaFunc("sdf", "convertLines")
	if cl == nil {
		return nil
	}
	var out *ssa.Function
	allInstrs(cl, func(_ *ssa.BasicBlock, ins ssa.Instruction) {
		c, ok := ins.(*ssa.Call)
		if !ok {
			return
		}
		g := c.Call.StaticCallee()
		if g == nil || !inModule(g) || len(g.Blocks) == 0 {
			return
		}
		if strings.HasSuffix(c.Type().String(), "sdf.lineInfo") {
			out = g
			return
		}
		for _, p := range g.Params {
			if strings.HasSuffix(p.Type().String(), "*"+modPath+"/sdf.lineInfo") {
				out = g
			}
		}
	})
	return out
}

// checkClosingEdge (W14): a closed outline gets its closing edge unless the last vertex repeats
// the first - decided by the vertex comparison of the library with the library's tolerance, and
// by nothing else. (A squared distance compared with the un-squared tolerance treats a last
// vertex 3e-5 away as a repeat: the closing edge is dropped, the outline is open, and the sign
// is wrong in a half-infinite strip level with the gap.)
func checkClosingEdge(ctx *Ctx, r *Report) {
	fn := ctx.ssaFunc("sdf", "VertexToLine")
	if fn == nil {
		r.undecided("W14", "VertexToLine", 0, "not found")
		return
	}
	ev := newEval(ctx, "Equals")
	ev.evalRoot(fn)
	vtx, closed := paramName(fn, 0), paramName(fn, 1)
	var app *Event
	for i, e := range ev.Events {
		// the slice itself, or a re-slice of it (vertex[:n:n] keeps the caller's array out of reach)
		isVtx := func(v Val) bool {
			if valKey(v) == "sym:"+vtx {
				return true
			}
			return valKey(v) == "slice:"+vtx+"[a:b]" // a re-slice with symbolic bounds
		}
		if e.Callee == "append" && len(e.Args) >= 1 && isVtx(e.Args[0]) {
			app = &ev.Events[i]
		}
	}
	if app == nil || app.Cond == nil {
		r.undecided("W14", "VertexToLine", fn.Pos(), "no conditional append of the closing vertex found")
		return
	}
	bad := ""
	nEq := 0
	var flat func(t *Term) []*Term
	flat = func(t *Term) []*Term {
		if t.Op == "ite" && len(t.Args) == 3 && t.Args[2].IsZero() {
			return append(flat(t.Args[0]), flat(t.Args[1])...)
		}
		var out []*Term
		for _, c := range conjuncts(t) {
			if c.Key() == t.Key() {
				return []*Term{t}
			}
			out = append(out, flat(c)...)
		}
		return out
	}
	for _, c := range flat(app.Cond) {
		k := c.Key()
		switch {
		case strings.Contains(k, "len("+vtx+")") && !strings.Contains(k, ".Equals"):
		case k == closed || k == Cmp("!=", A(closed), K(0)).Key() || k == Not(Cmp("==", A(closed), K(0))).Key():
		case c.Op == "not" && c.Args[0].Op == "call" && strings.HasSuffix(c.Args[0].S, ".Equals"):
			nEq++
			eq := c.Args[0]
			if len(eq.Args) != 3 {
				bad += " unexpected comparison " + shortKey(k, 100) + ";"
				break
			}
			a, b := eq.Args[0].Key(), eq.Args[1].Key()
			first := strings.Contains(a, vtx+"[0]") || strings.Contains(b, vtx+"[0]")
			last := strings.Contains(a, "len("+vtx+")") || strings.Contains(b, "len("+vtx+")")
			tol, isC := eq.Args[2], eq.Args[2].IsConst()
			f := 0.0
			if isC {
				f, _ = tol.C.Float64()
			}
			if !first || !last || !isC || f <= 0 || f > 1e-6 {
				bad += " the comparison is not first-vertex vs last-vertex within the package tolerance: " + shortKey(k, 140) + ";"
			}
		default:
			bad += " the closing edge also depends on " + shortKey(k, 120) + ";"
		}
	}
	if nEq == 0 {
		// the comparison is written out: decide the same statement on the closed form, for last −
		// first on a grid around the tolerance
		bad = ""
		lastX, lastY := vtx+"[+(-1,len("+vtx+"))].X", vtx+"[+(-1,len("+vtx+"))].Y"
		n := 0
		for _, dx := range []float64{0, 5e-10, -5e-10, 2e-9, -2e-9, 1e-5, -3e-5, 1} {
			for _, dy := range []float64{0, 5e-10, 2e-9, -1e-5, 1} {
				env := map[string]float64{"len(" + vtx + ")": 5, closed: 1, vtx + "[0].X": 0.25, vtx + "[0].Y": -0.5, lastX: 0.25 + dx, lastY: -0.5 + dy}
				got, ok := evalFloat(app.Cond, env)
				if !ok {
					bad = " the condition of the closing edge is not a closed form of the two vertices: " + shortKey(app.Cond.Key(), 200) + ";"
					break
				}
				n++
				want := math.Abs(dx) > 1e-9 || math.Abs(dy) > 1e-9
				if (got != 0) != want && len(bad) < 200 {
					bad += fmt.Sprintf(" last − first = (%g, %g): closing edge appended = %v;", dx, dy, got != 0)
				}
			}
		}
		r.check("W14", "VertexToLine|closing-edge-unless-last-repeats-first", app.Pos, bad == "", fmt.Sprintf("written-out comparison evaluated on %d offsets around the tolerance 1e-9;%s", n, bad))
		r.floor("W14", 1)
		return
	}
	if nEq != 1 {
		bad += fmt.Sprintf(" %d vertex comparisons guard the closing edge (expected 1): %s;", nEq, shortKey(app.Cond.Key(), 300))
	}
	r.check("W14", "VertexToLine|closing-edge-unless-last-repeats-first", app.Pos, bad == "", "the closing vertex is appended iff closed and !first.Equals(last, tolerance);"+bad)
	r.floor("W14", 1)
}

// checkOwnershipWithinSnap (W15): lineIntersect snaps the end points of the pieces it keeps onto
// the box edges with a tolerance, so a segment running along an edge within that tolerance is
// "on" the edge for the box on either side. The half-open ownership rule (W3: the top and right
// edges belong to the neighbour) has to use the same notion, or a vertical segment an ulp inside
// the right edge is kept by this box (it contains it) and by the right neighbour (which snaps it
// onto its own left edge) and counted twice by the winding number. The split lines are rounded
// centres of a scaled square: ordinary rectilinear outlines come that close.
// Decided on the conditions of the function's early nil returns (those that do not depend on
// the candidate points), evaluated numerically for an axis-parallel segment at offsets of
// 0, ±tolerance/2 (must be given up) and ±2·tolerance, −0.3 (must not be given up here: inside the
// box nobody else owns it) from the top / right edge of the unit box.
func checkOwnershipWithinSnap(ctx *Ctx, r *Report) {
	fn := ctx.ssaFunc("sdf", "(*Box2).lineIntersect")
	if fn == nil {
		r.undecided("W15", "Box2.lineIntersect", 0, "not found")
		return
	}
	tol := 0.0
	if p := ctx.Pkgs["sdf"]; p != nil && p.Types != nil {
		if c, ok := p.Types.Scope().Lookup("tolerance").(*types.Const); ok {
			tol, _ = constant.Float64Val(constant.ToFloat(c.Val()))
		}
	}
	// does the function snap at all? (no snapping, no tolerance to agree with)
	snaps := false
	allInstrs(fn, func(_ *ssa.BasicBlock, ins ssa.Instruction) {
		if c, ok := ins.(*ssa.Call); ok {
			if g := c.Call.StaticCallee(); g != nil && strings.HasPrefix(g.Name(), "Snap") {
				snaps = true
			}
		}
	})
	if !snaps || tol <= 0 {
		r.check("W15", "Box2.lineIntersect|edge-ownership-uses-the-snapping-tolerance", fn.Pos(), true, "the clipper does not snap candidate points (rule not applicable to this shape)")
		r.floor("W15", 1)
		return
	}
	ev := newEval(ctx)
	ev.evalRoot(fn)
	box, l := paramName(fn, 0), paramName(fn, 1)
	bad := ""
	n := 0
	for _, ax := range []string{"X", "Y"} {
		other := "Y"
		if ax == "Y" {
			other = "X"
		}
		for _, c := range []struct {
			d      float64
			giveUp bool
		}{{0, true}, {-tol / 2, true}, {tol / 2, true}, {-tol * 1e-3, true}, {-2 * tol, false}, {-0.3, false}} {
			for _, dir := range []float64{1, -1} {
				env := map[string]float64{box + ".Min.X": 0, box + ".Min.Y": 0, box + ".Max.X": 1, box + ".Max.Y": 1,
					l + "[0]." + ax: 1 + c.d, l + "[1]." + ax: 1 + c.d,
					l + "[0]." + other: 0.5 - 0.25*dir, l + "[1]." + other: 0.5 + 0.25*dir}
				gaveUp, decided := false, 0
				for _, alt := range ev.RootRets {
					if _, isNil := alt.Val.(Nil); !isNil || alt.Cond == nil {
						continue
					}
					v, ok := evalFloat(alt.Cond, env)
					if !ok {
						continue // depends on the candidate points: not an edge test
					}
					decided++
					if v != 0 {
						gaveUp = true
					}
				}
				n++
				if decided == 0 && c.giveUp {
					bad += " no early return decides an axis-parallel segment;"
				}
				if gaveUp != c.giveUp && len(bad) < 300 {
					bad += fmt.Sprintf(" segment parallel to the %s axis at %s = Max.%s%+g: given up = %v, expected %v;", other, ax, ax, c.d, gaveUp, c.giveUp)
				}
			}
		}
	}
	r.check("W15", "Box2.lineIntersect|edge-ownership-uses-the-snapping-tolerance", fn.Pos(), bad == "", fmt.Sprintf("%d placements of an axis-parallel segment around the top/right edge (tolerance %g);%s", n, tol, bad))
	r.floor("W15", 1)
}

// checkSquaredDistanceIsASumOfSquares (W16, float-faithful): the squared distance to a segment is
// returned as a sum of squares on every branch (a squared length, or the square of the normal
// component). Pythagoras the other way round - |pa|² − t² - is the same number in exact
// arithmetic and cancels in floating point: close to a long edge, far from its start vertex, it
// comes out wrong or negative (NaN after the square root), and the fast and the brute-force
// path, which share this kernel, return a distance that is not the distance to the nearest edge.
func checkSquaredDistanceIsASumOfSquares(ctx *Ctx, r *Report) {
	fn := ctx.ssaFunc("sdf", "(*lineInfo).minDistance2")
	if fn == nil {
		r.undecided("W16", "lineInfo.minDistance2", 0, "not found")
		return
	}
	ev := newEval(ctx)
	ev.faithful = true
	res, _ := ev.evalRoot(fn)
	t, _ := res.(*Term)
	if t == nil || ev.Exceeded {
		r.undecided("W16", "lineInfo.minDistance2", fn.Pos(), "the result is not a scalar closed form")
		return
	}
	var sumOfSquares func(x *Term) bool
	sumOfSquares = func(x *Term) bool {
		switch {
		case x.Op == "ite":
			return sumOfSquares(x.Args[1]) && sumOfSquares(x.Args[2])
		case x.Op == "f+":
			return sumOfSquares(x.Args[0]) && sumOfSquares(x.Args[1])
		case x.Op == "f*" && len(x.Args) == 2:
			return x.Args[0].Key() == x.Args[1].Key()
		case x.Op == "c":
			return x.C.Sign() >= 0
		case x.Op == "call" && (x.S == "math.Min" || x.S == "math.Max") && len(x.Args) == 2:
			return sumOfSquares(x.Args[0]) && sumOfSquares(x.Args[1])
		}
		return false
	}
	bad := ""
	n := 0
	var leaves func(x *Term)
	leaves = func(x *Term) {
		if x.Op == "ite" {
			leaves(x.Args[1])
			leaves(x.Args[2])
			return
		}
		n++
		if !sumOfSquares(x) && len(bad) < 300 {
			bad += " a branch returns " + shortKey(x.Key(), 140) + ";"
		}
	}
	leaves(t)
	r.check("W16", "lineInfo.minDistance2|every-branch-returns-a-sum-of-squares", fn.Pos(), bad == "" && n >= 2, fmt.Sprintf("%d branches, each x·x + y·y or d·d (never a difference of squares);%s", n, bad))
	r.floor("W16", 1)
}

// checkSnapPerAxis (W17): Box2.Snap moves each coordinate of a point onto the box edge it is
// within tolerance of, the two axes independently: a clip point next to a box corner is an ulp
// off in both. A chain of alternatives (`switch { case near Min.X: .. case near Min.Y: .. }`)
// snaps one axis only; the point then fails Contains and the clipped piece is dropped. Decided
// on the closed form: the result's Y does not depend on p.X (nor X on p.Y), and a coordinate
// within tolerance of either edge comes out as that edge.
func checkSnapPerAxis(ctx *Ctx, r *Report) {
	fn := ctx.ssaFunc("sdf", "(*Box2).Snap")
	if fn == nil {
		r.undecided("W17", "Box2.Snap", 0, "not found")
		return
	}
	ev := newEval(ctx)
	res, _ := ev.evalRoot(fn)
	out := pointTerms(res, 2)
	if out == nil || len(fn.Params) < 3 {
		r.undecided("W17", "Box2.Snap", fn.Pos(), "not a closed form")
		return
	}
	box, p, delta := paramName(fn, 0), paramName(fn, 1), paramName(fn, 2)
	bad := ""
	for i, ax := range []string{"X", "Y"} {
		other := []string{"Y", "X"}[i]
		for _, a := range findSub(out[i], func(x *Term) bool { return x.Op == "a" }) {
			if a.S == p+"."+other || strings.HasSuffix(a.S, ".Min."+other) || strings.HasSuffix(a.S, ".Max."+other) {
				bad += " the snapped " + ax + " depends on " + a.S + ";"
				break
			}
		}
		for _, c := range []struct{ v, want float64 }{{0 + 4e-10, 0}, {0 - 4e-10, 0}, {1 - 4e-10, 1}, {1 + 4e-10, 1}, {0.5, 0.5}, {1 + 3e-9, 1 + 3e-9}} {
			env := map[string]float64{box + ".Min.X": 0, box + ".Min.Y": 0, box + ".Max.X": 1, box + ".Max.Y": 1, delta: 1e-9,
				p + "." + ax: c.v, p + "." + other: 4e-10}
			got, ok := evalFloat(out[i], env)
			if !ok {
				bad += " " + ax + " is not a closed form of the point, the box and the tolerance;"
				break
			}
			if got != c.want && len(bad) < 300 {
				bad += fmt.Sprintf(" %s = %g (the other coordinate also near an edge) snaps to %g, expected %g;", ax, c.v, got, c.want)
			}
		}
	}
	r.check("W17", "Box2.Snap|each-axis-snapped-on-its-own", fn.Pos(), bad == "", "both coordinates are snapped, each by tests of its own value only;"+bad)
	r.floor("W17", 1)
}

// checkBoxDistanceBound (W18): the distance search prunes a quadtree node when the squared
// distance from the point to the node's box is not below the best so far; that box distance is
// max(dx, 0)² + max(dy, 0)² with dx, dy the excess of |p − centre| over the half side - in
// particular 0 on the boundary. An inclusive test (`dy <= 0` for "level with the box") gives
// dx² to a point on the top edge and the node that touches the point is pruned.
func checkBoxDistanceBound(ctx *Ctx, r *Report) {
	fn := ctx.ssaFunc("sdf", "(*qtNode).minBoxDist2")
	if fn == nil {
		r.check("W18", "qtNode.minBoxDist2|is-the-distance-to-the-box", 0, true, "the search has no separate box distance (rule not applicable to this shape)")
		r.floor("W18", 1)
		return
	}
	ev := newEval(ctx)
	res, _ := ev.evalRoot(fn)
	t, _ := res.(*Term)
	if t == nil {
		r.undecided("W18", "qtNode.minBoxDist2", fn.Pos(), "not a scalar closed form")
		return
	}
	node, p := paramName(fn, 0), paramName(fn, 1)
	bad := ""
	n := 0
	for _, dx := range []float64{-1.5, 0, 2} {
		for _, dy := range []float64{-0.5, 0, 3} {
			for _, sx := range []float64{1, -1} {
				env := map[string]float64{node + ".center.X": 10, node + ".center.Y": -4, node + ".halfSide": 5,
					p + ".X": 10 + sx*(5+dx), p + ".Y": -4 + (5 + dy)}
				got, ok := evalFloat(t, env)
				if !ok {
					bad = " not a closed form of the point, the centre and the half side: " + shortKey(t.Key(), 120) + ";"
					break
				}
				n++
				want := math.Max(dx, 0)*math.Max(dx, 0) + math.Max(dy, 0)*math.Max(dy, 0)
				if math.Abs(got-want) > 1e-12 && len(bad) < 300 {
					bad += fmt.Sprintf(" excess (%g, %g): %g, expected %g;", dx, dy, got, want)
				}
			}
		}
	}
	r.check("W18", "qtNode.minBoxDist2|is-the-distance-to-the-box", fn.Pos(), bad == "" && n > 0, fmt.Sprintf("max(dx,0)² + max(dy,0)² on %d placements, the boundary among them;%s", n, bad))
	r.floor("W18", 1)
}

// checkUnclippedPiecesAreSnapped (W19): the pieces lineIntersect cuts have their end points snapped
// onto the box edges; a segment that lies inside the box is returned without cutting and has to
// be snapped as well. Otherwise, of the edges meeting at a vertex an ulp above a split line (the
// centre of the scaled bounding square is rounded: ordinary outlines have such vertices), those
// cut by the line end on it and those returned whole end an ulp above it; a query level with the
// line sees one crossing and not its partner, and the sign is wrong along the whole level.
// Decided on the closed form: for a segment inside the unit box with one end within tolerance
// of an edge, the piece returned has that end on the edge.
func checkUnclippedPiecesAreSnapped(ctx *Ctx, r *Report) {
	fn := ctx.ssaFunc("sdf", "(*Box2).lineIntersect")
	if fn == nil {
		r.undecided("W19", "Box2.lineIntersect", 0, "not found")
		return
	}
	snaps := false
	allInstrs(fn, func(_ *ssa.BasicBlock, ins ssa.Instruction) {
		if c, ok := ins.(*ssa.Call); ok {
			if g := c.Call.StaticCallee(); g != nil && strings.HasPrefix(g.Name(), "Snap") {
				snaps = true
			}
		}
	})
	if !snaps {
		r.check("W19", "Box2.lineIntersect|pieces-inside-the-box-are-snapped-too", fn.Pos(), true, "the clipper does not snap candidate points (rule not applicable to this shape)")
		r.floor("W19", 1)
		return
	}
	ev := newEval(ctx, "tAppend")
	ev.evalRoot(fn)
	box, l := paramName(fn, 0), paramName(fn, 1)
	bad := ""
	n := 0
	for _, c := range []struct {
		ax, other string
		end       int
		v, want   float64
	}{{"Y", "X", 0, 4e-10, 0}, {"Y", "X", 1, 1 - 4e-10, 1}, {"X", "Y", 0, 4e-10, 0}, {"X", "Y", 1, 1 - 4e-10, 1}, {"Y", "X", 0, 0.25, 0.25}} {
		env := map[string]float64{box + ".Min.X": 0, box + ".Min.Y": 0, box + ".Max.X": 1, box + ".Max.Y": 1}
		for e := 0; e < 2; e++ {
			env[fmt.Sprintf("%s[%d].%s", l, e, c.ax)] = 0.3 + 0.4*float64(e)
			env[fmt.Sprintf("%s[%d].%s", l, e, c.other)] = 0.2 + 0.5*float64(e)
		}
		env[fmt.Sprintf("%s[%d].%s", l, c.end, c.ax)] = c.v
		decided := false
		for _, alt := range ev.RootRets {
			if alt.Cond == nil {
				continue
			}
			cv, ok := evalFloat(alt.Cond, env)
			if !ok || cv == 0 {
				continue
			}
			decided = true
			if _, isNil := alt.Val.(Nil); isNil {
				bad += fmt.Sprintf(" a segment inside the box (end %d at %s = %g) is given up;", c.end, c.ax, c.v)
				break
			}
			obj, okO := resultObject(alt.Val, alt.State)
			if !okO {
				// the argument itself is returned: its end points are what they were
				if c.want != c.v {
					bad += fmt.Sprintf(" end %d at %s = %g (within tolerance of the edge %g) is returned as it is;", c.end, c.ax, c.v, c.want)
				}
				break
			}
			m := map[string]*Term{}
			leafTerms("", obj, m)
			t := m[fmt.Sprintf("[%d].%s", c.end, c.ax)]
			got, okV := 0.0, false
			if t != nil {
				got, okV = evalFloat(t, env)
			}
			if !okV || got != c.want {
				bad += fmt.Sprintf(" end %d at %s = %g comes back as %g, expected %g;", c.end, c.ax, c.v, got, c.want)
			}
			break
		}
		if decided {
			n++
		} else {
			bad += " no return path could be evaluated for a segment inside the box;"
		}
	}
	r.check("W19", "Box2.lineIntersect|pieces-inside-the-box-are-snapped-too", fn.Pos(), bad == "" && n > 0, fmt.Sprintf("%d segments inside the unit box, an end within tolerance of each edge in turn;%s", n, bad))
	r.floor("W19", 1)
}

// ---------------------------------------------------------------- W20: the polygon is the one given

func init() {
	prev := registry["C04"].run
	registry["C04"] = propDef{run: func(ctx *Ctx, r *Report, tier string) {
		prev(ctx, r, tier)
		checkPolygonKeepsItsVertices(ctx, r)
	}}
}

// checkPolygonKeepsItsVertices (W20): Polygon2D measures distance to the polygon it is given:
// the vertex list that reaches the segment builder (the function returning []*Line2 that the
// mesh constructor is fed from) is the caller's slice, not a filtered copy. Vertices dropped by
// an absolute "collinear" or "duplicate" test change the outline of small-scale polygons (a
// fillet of short edges becomes a chamfer), which the brute-force path built from the same
// filtered list cannot reveal either.
func checkPolygonKeepsItsVertices(ctx *Ctx, r *Report) {
	fn := ctx.ssaFunc("sdf", "Polygon2D")
	if fn == nil || len(fn.Params) == 0 {
		r.undecided("W20", "Polygon2D", 0, "not found")
		return
	}
	n := 0
	allInstrs(fn, func(_ *ssa.BasicBlock, ins ssa.Instruction) {
		c, ok := ins.(*ssa.Call)
		if !ok {
			return
		}
		f := c.Common().StaticCallee()
		if f == nil || !inModule(f) || len(c.Common().Args) == 0 {
			return
		}
		// a segment builder: takes a vertex slice of the parameter's type, returns line segments
		if !types.Identical(c.Common().Args[0].Type(), fn.Params[0].Type()) || f.Signature.Results().Len() == 0 || !strings.Contains(f.Signature.Results().At(0).Type().String(), "Line2") {
			return
		}
		n++
		r.check("W20", fmt.Sprintf("Polygon2D|%s-gets-the-caller's-vertices", f.Name()), c.Pos(), c.Common().Args[0] == ssa.Value(fn.Params[0]),
			"the vertex list turned into segments is the parameter itself")
	})
	if n == 0 {
		r.check("W20", "Polygon2D|segment-builder", fn.Pos(), true, "no segment builder called with a vertex slice (rule not applicable to this shape)")
	}
}

// ---------------------------------------------------------------- W21: crossings at a box corner

func init() {
	prev := registry["C04"].run
	registry["C04"] = propDef{run: func(ctx *Ctx, r *Report, tier string) {
		prev(ctx, r, tier)
		checkCornerCrossingsMerged(ctx, r)
	}}
}

// checkCornerCrossingsMerged (W21): a segment that passes a box corner within the snapping
// tolerance crosses two box edges at parameters that differ by more than the parameter
// tolerance (W8 keeps both), and both crossings snap to the corner: the clipper then holds three
// candidate points for a piece that has two ends, and a clipper that insists on exactly two
// drops the piece from that child and from the one diagonally opposite. The function that
// collects the snapped candidate points therefore compares a new point with the points it
// already holds before appending it.
func checkCornerCrossingsMerged(ctx *Ctx, r *Report) {
	fn := ctx.ssaFunc("sdf", "(*Box2).lineIntersect")
	if fn == nil {
		r.undecided("W21", "Box2.lineIntersect", 0, "not found")
		return
	}
	isPointSet := func(t types.Type) bool {
		sl, ok := t.Underlying().(*types.Slice)
		return ok && strings.HasSuffix(sl.Elem().String(), "vec/v2.Vec")
	}
	fns := []*ssa.Function{fn}
	allInstrs(fn, func(_ *ssa.BasicBlock, ins ssa.Instruction) {
		if c, ok := ins.(*ssa.Call); ok {
			if f := c.Common().StaticCallee(); f != nil && inModule(f) && len(f.Blocks) > 0 {
				for _, a := range c.Common().Args {
					if isPointSet(a.Type()) {
						fns = append(fns, f)
						break
					}
				}
			}
		}
	})
	n := 0
	for _, f := range fns {
		var app *ssa.Call
		compares := false
		fromSet := func(v ssa.Value) bool {
			for d := 0; d < 4 && v != nil; d++ {
				switch x := v.(type) {
				case *ssa.UnOp:
					v = x.X
				case *ssa.Field:
					v = x.X
				case *ssa.FieldAddr:
					v = x.X
				case *ssa.IndexAddr:
					return isPointSet(x.X.Type())
				case *ssa.Index:
					return isPointSet(x.X.Type())
				default:
					return false
				}
			}
			return false
		}
		allInstrs(f, func(_ *ssa.BasicBlock, ins ssa.Instruction) {
			switch x := ins.(type) {
			case *ssa.Call:
				if bi, ok := x.Common().Value.(*ssa.Builtin); ok && bi.Name() == "append" && isPointSet(x.Type()) {
					app = x
				}
				if cf := x.Common().StaticCallee(); cf != nil && (cf.Name() == "Equals" || cf.Name() == "EqualFloat64") {
					for _, a := range x.Common().Args {
						if fromSet(a) {
							compares = true
						}
					}
				}
			case *ssa.BinOp:
				if (x.Op == token.EQL || x.Op == token.NEQ) && (fromSet(x.X) || fromSet(x.Y)) {
					compares = true
				}
			}
		})
		if app == nil {
			continue
		}
		n++
		r.check("W21", "Box2.lineIntersect|"+f.Name()+"-merges-candidate-points-that-snap-together", app.Pos(), compares,
			"a candidate point is compared with the points already collected before it is appended (two crossings within the snapping tolerance of a box corner are one end point)")
	}
	if n == 0 {
		r.check("W21", "Box2.lineIntersect|candidate-points", fn.Pos(), true, "no candidate point set is built by appending (rule not applicable to this shape)")
	}
}

// ---------------------------------------------------------------- W22: the caller's vertices are read only

func init() {
	prev := registry["C04"].run
	registry["C04"] = propDef{run: func(ctx *Ctx, r *Report, tier string) {
		prev(ctx, r, tier)
		checkVerticesNotWritten(ctx, r)
	}}
}

// checkVerticesNotWritten (W22): Polygon2D and the functions it hands the caller's vertex slice
// to do not write the slice's backing array: no element store through the parameter, and an
// append to it is made through a slice whose capacity is limited to its length (v[:n:n]) or to
// a copy. Appending the closing vertex to the caller's slice itself overwrites the element after
// it when the slice has spare capacity - the first vertex of a second polygon carved from the same
// array, which is then not the polygon its caller describes.
func checkVerticesNotWritten(ctx *Ctx, r *Report) {
	root := ctx.ssaFunc("sdf", "Polygon2D")
	if root == nil || len(root.Params) == 0 {
		r.undecided("W22", "Polygon2D", 0, "not found")
		return
	}
	vt := root.Params[0].Type()
	type job struct {
		fn  *ssa.Function
		par *ssa.Parameter
	}
	jobs := []job{{root, root.Params[0]}}
	seen := map[*ssa.Function]bool{root: true}
	n := 0
	for len(jobs) > 0 {
		j := jobs[0]
		jobs = jobs[1:]
		// values that share the parameter's backing array (and may write it in place)
		var shares func(v ssa.Value, d int) (bool, bool) // (shares, capacity limited to length)
		shares = func(v ssa.Value, d int) (bool, bool) {
			if v == ssa.Value(j.par) {
				return true, false
			}
			if d > 8 {
				return false, false
			}
			switch x := v.(type) {
			case *ssa.Slice:
				if s, _ := shares(x.X, d+1); s {
					return true, x.Max != nil && x.High != nil && x.Max == x.High
				}
			case *ssa.Phi:
				for _, e := range x.Edges {
					if _, isCall := e.(*ssa.Call); isCall {
						continue // the result of an append: decided at that append
					}
					if s, lim := shares(e, d+1); s {
						return true, lim
					}
				}
			case *ssa.ChangeType:
				return shares(x.X, d+1)
			}
			return false, false
		}
		bad := ""
		allInstrs(j.fn, func(_ *ssa.BasicBlock, ins ssa.Instruction) {
			switch x := ins.(type) {
			case *ssa.Store:
				a := x.Addr
				if fa, ok := a.(*ssa.FieldAddr); ok {
					a = fa.X
				}
				if ia, ok := a.(*ssa.IndexAddr); ok {
					if s, _ := shares(ia.X, 0); s && bad == "" {
						bad = " element stored at " + ctx.pos(x.Pos())
					}
				}
			case *ssa.Call:
				c := x.Common()
				if bi, ok := c.Value.(*ssa.Builtin); ok {
					if (bi.Name() == "append" || bi.Name() == "copy") && len(c.Args) > 0 {
						if s, lim := shares(c.Args[0], 0); s && !lim && bad == "" {
							bad = " " + bi.Name() + " into the caller's array at " + ctx.pos(x.Pos())
						}
					}
					return
				}
				f := c.StaticCallee()
				if f == nil || !inModule(f) || len(f.Blocks) == 0 || seen[f] {
					return
				}
				for i, a := range c.Args {
					if s, _ := shares(a, 0); s && i < len(f.Params) && types.Identical(f.Params[i].Type(), vt) {
						seen[f] = true
						jobs = append(jobs, job{f, f.Params[i]})
					}
				}
			}
		})
		n++
		r.check("W22", shortFn(j.fn)+"|does-not-write-the-caller's-vertices", j.fn.Pos(), bad == "", "no element store through, and no in-place append to, the vertex slice it is given;"+bad)
	}
	r.floor("W22", 2)
}
