package main

// C04 — polygon SDF: the crossing rules on the measure-zero sets.
//
//  W1  lineInfo.winding, as a comparison-only term over (ay, by, py) and the
//      sign of the side test, for all 27×3 cases: an edge and its reversal
//      give opposite increments, horizontal edges give 0, strictly between
//      the endpoints the crossing counts iff the point is on the left of an
//      upward / right of a downward edge, and the crossing rule is half-open
//      with the SAME closed end for upward and downward edges (a vertex level
//      is counted exactly once per edge chain)
//  W2  qtNode.winding visits, for every sign of (p − centre), exactly the
//      children of the point's row from its column rightwards (+x ray)
//  W3  Box2.lineIntersect: segments lying on the box's top / right edge are
//      rejected before anything else can return them, those on bottom / left
//      are kept — the half-open ownership that matches where W2 sends points
//      lying exactly on a split line
//  W4  the accelerated and the brute-force evaluation share the per-segment
//      kernels and the final sign rule
//
// Not decided: distances (clipping tolerance, pruning by box distance, search order).

import (
	"fmt"
	"math/big"
	"strings"

	"golang.org/x/tools/go/ssa"
)

func init() { register("C04", checkC04) }

func checkC04(ctx *Ctx, r *Report, tier string) {
	r.Explain = "The ray-crossing rule of the polygon SDF is decided exhaustively over the finite sign/order domain it depends on (orderings of the two endpoint heights and the query height, sign of the side test); the quadtree's child selection is decided for every sign of the point relative to the split lines and cross-checked with the half-open edge ownership of the segment clipping; the fast and the brute-force paths are shown to share kernels and sign rule. Distances (clipping tolerance, box-distance pruning) are numerical and not decided."
	r.Exhaust = true
	r.Trusted = []string{"go/types", "go/ssa", "sdfxlint gated symbolic evaluator"}
	r.Assume = []string{"polygons are simple and closed"}
	checkWindingRule(ctx, r, ctx.ssaFunc("sdf", "(*lineInfo).winding"), "sdf.lineInfo.winding")
	if cf := ctx.ssaFunc("sdf", "(*verifCtlLineInfo).winding"); cf != nil {
		checkWindingRule(ctx, r, cf, "verifCtlLineInfo.winding")
		r.expectControl("W1", "verifCtlLineInfo.winding")
	}
	closedLower := windingConvention
	checkQuadtreeWinding(ctx, r, closedLower)
	checkLineOwnership(ctx, r)
	checkSharedKernels(ctx, r)
	r.floor("W1", 4)
	r.floor("W2", 5)
	r.floor("W3", 4)
	r.floor("W4", 3)
	checkQuadTiling(ctx, r)
	r.floor("W5", 5)
}

var windingConvention = true // lower endpoint closed (set by W1 on the real function)

func checkWindingRule(ctx *Ctx, r *Report, fn *ssa.Function, key string) {
	if fn == nil {
		r.undecided("W1", key, 0, "function not found")
		return
	}
	ev := newEval(ctx)
	res, _ := ev.evalRoot(fn)
	t, _ := res.(*Term)
	if t == nil {
		r.undecided("W1", key, fn.Pos(), "result not scalar")
		return
	}
	recv, p := paramName(fn, 0), paramName(fn, 1)
	// the side test: the polynomial compared with 0
	var side *Term
	for _, c := range condAtoms(t) {
		if c.Op == "cmp" && (c.Args[1].IsZero() || c.Args[0].IsZero()) {
			s := c.Args[0]
			if s.IsZero() {
				s = c.Args[1]
			}
			if side == nil {
				side = s
			} else if side.Key() != s.Key() {
				r.undecided("W1", key, fn.Pos(), "two different side tests")
				return
			}
		}
	}
	if side == nil {
		r.undecided("W1", key, fn.Pos(), "no side test found")
		return
	}
	// dn = (p − a0)·(u.Y, −u.X): negative on the left of the directed edge
	a0x, a0y := A(recv+".line[0].X"), A(recv+".line[0].Y")
	wantSide := Sub(Mul(Sub(A(p+".X"), a0x), A(recv+".unitVector.Y")), Mul(Sub(A(p+".Y"), a0y), A(recv+".unitVector.X")))
	sideSign := 0
	if equalRat(side, wantSide) {
		sideSign = 1
	} else if equalRat(side, Neg(wantSide)) {
		sideSign = -1
	}
	r.check("W1", key+"|side-test-is-the-edge-normal-component", fn.Pos(), sideSign != 0, "side = (p−a0)·(u.y, −u.x) up to sign; found "+shortKey(side.Key(), 160))
	if sideSign == 0 {
		return
	}
	g := substKeys(t, map[string]*Term{side.Key(): A("SIDE")})
	leaves, ok := orderLeaves(g)
	if !ok {
		r.undecided("W1", key, fn.Pos(), "not comparison-only after abstracting the side test")
		return
	}
	ay, by, py := recv+".line[0].Y", recv+".line[1].Y", p+".Y"
	for _, l := range leaves {
		k := l.Key()
		if k != ay && k != by && k != py && k != "SIDE" {
			r.undecided("W1", key, fn.Pos(), "unexpected value compared: "+k)
			return
		}
	}
	w := func(a, b, y, s int) int {
		env := map[string]*big.Rat{ay: big.NewRat(int64(a), 1), by: big.NewRat(int64(b), 1), py: big.NewRat(int64(y), 1), "SIDE": big.NewRat(int64(s*sideSign), 1)}
		return int(evalT(g, env).Num().Int64())
	}
	// s: -1 = p on the left of the directed edge a->b, +1 = on the right
	okRev, okHoriz, okInner := true, true, true
	detail := ""
	n := 0
	for a := 0; a < 3; a++ {
		for b := 0; b < 3; b++ {
			for y := 0; y < 3; y++ {
				for s := -1; s <= 1; s++ {
					n++
					v := w(a, b, y, s)
					// reversal: endpoints swap, the left side becomes the right side
					if v != -w(b, a, y, -s) {
						okRev = false
						detail += fmt.Sprintf(" [w(%d,%d;y=%d;s=%d)=%d but reversed=%d]", a, b, y, s, v, w(b, a, y, -s))
					}
					if a == b && v != 0 {
						okHoriz = false
					}
					lo, hi := a, b
					if lo > hi {
						lo, hi = hi, lo
					}
					if a != b && y > lo && y < hi {
						want := 0
						if b > a && s < 0 {
							want = 1
						}
						if b < a && s > 0 {
							want = -1
						}
						if v != want {
							okInner = false
							detail += fmt.Sprintf(" [inner w(%d,%d;y=%d;s=%d)=%d want %d]", a, b, y, s, v, want)
						}
					}
					if a != b && (y < lo || y > hi) && v != 0 {
						okInner = false
						detail += fmt.Sprintf(" [outside the edge's height range w(%d,%d;y=%d)=%d]", a, b, y, v)
					}
				}
			}
		}
	}
	r.Counts["winding_cases"] += n
	r.check("W1", key+"|reversed-edge-gives-opposite-increment", fn.Pos(), okRev, "for all 81 cases"+detail)
	r.check("W1", key+"|horizontal-edges-count-zero", fn.Pos(), okHoriz, "an edge level with the query never counts")
	r.check("W1", key+"|crossing-counts-iff-point-is-on-the-inner-side", fn.Pos(), okInner, "strictly inside the height range: +1 for an upward edge with p on its left, −1 for a downward edge with p on its right, 0 otherwise;"+detail)
	// half-open convention
	upLo, upHi := w(0, 2, 0, -1) != 0, w(0, 2, 2, -1) != 0
	dnLo, dnHi := w(2, 0, 0, 1) != 0, w(2, 0, 2, 1) != 0
	okHalf := upLo != upHi && dnLo == upLo && dnHi == upHi
	r.check("W1", key+"|half-open-with-the-same-closed-end-for-both-directions", fn.Pos(), okHalf,
		fmt.Sprintf("counts at the lower/upper endpoint level: upward edge %v/%v, downward edge %v/%v (exactly one end must count, the same one for both)", upLo, upHi, dnLo, dnHi))
	if !strings.HasPrefix(key, "verifCtl") {
		windingConvention = upLo
	}
}

func checkQuadtreeWinding(ctx *Ctx, r *Report, lowerClosed bool) {
	fn := ctx.ssaFunc("sdf", "(*qtNode).winding")
	if fn == nil {
		r.undecided("W2", "qtNode.winding", 0, "not found")
		return
	}
	ev := newEval(ctx, "(*sdf.lineInfo).winding")
	ev.evalRoot(fn)
	node, p := paramName(fn, 0), paramName(fn, 1)
	qx := Cmp("<", Sub(A(p+".X"), A(node+".center.X")), K(0))
	qy := Cmp("<", Sub(A(p+".Y"), A(node+".center.Y")), K(0))
	var calls []Event
	for _, e := range ev.Events {
		if strings.HasPrefix(e.Callee, "rec:") && strings.HasSuffix(e.Callee, ".winding") {
			calls = append(calls, e)
		}
	}
	if len(calls) == 0 {
		r.check("W2", "qtNode.winding|recursion", fn.Pos(), false, "no recursive descent found")
		return
	}
	// conditions must be built from the two sign tests (plus nil/leaf tests)
	known := map[string]bool{qx.Key(): true, qy.Key(): true}
	for _, xl := range []bool{true, false} {
		for _, yl := range []bool{true, false} {
			truth := map[string]bool{qx.Key(): xl, qy.Key(): yl}
			visited := map[int]bool{}
			for _, e := range calls {
				c := e.Cond
				if c == nil {
					continue
				}
				// other leaves (nil node, leaf test): take the branch that reaches the children
				tr := map[string]bool{}
				for k, v := range truth {
					tr[k] = v
				}
				for _, ca := range condAtoms(c) {
					if !known[ca.Key()] {
						// choose the value that keeps the condition alive, if any
						tr[ca.Key()] = true
						if assume(c, tr).IsZero() {
							tr[ca.Key()] = false
						}
					}
				}
				if assume(c, tr).IsZero() {
					continue
				}
				s, _ := e.Args[0].(*Sym)
				if s == nil {
					continue
				}
				var k int
				if _, err := fmt.Sscanf(s.Path[strings.LastIndex(s.Path, "["):], "[%d]", &k); err == nil {
					visited[k] = true
				}
			}
			// children: 0 sw, 1 se, 2 nw, 3 ne
			want := map[int]bool{}
			row := 2
			if yl {
				row = 0
			}
			if xl {
				want[row] = true
			}
			want[row+1] = true
			r.check("W2", fmt.Sprintf("qtNode.winding|p-left-of-centre=%v|p-below-centre=%v", xl, yl), fn.Pos(), fmt.Sprint(visited) == fmt.Sprint(want),
				fmt.Sprintf("children visited %v, expected %v (own row, own column and everything to the right: the ray goes towards +x)", sortedInts(visited), sortedInts(want)))
		}
	}
	// the tests are strict (<): equality goes to the upper row / right column, i.e. a point on a split
	// line is looked up in the child that owns its bottom / left edge
	strict := false
	for _, e := range calls {
		if e.Cond != nil {
			for _, ca := range condAtoms(e.Cond) {
				if ca.Key() == qx.Key() || ca.Key() == qy.Key() {
					strict = true
				}
			}
		}
	}
	r.check("W2", "qtNode.winding|split-line-points-go-to-the-upper-right-children", fn.Pos(), strict, "tests are p.k − centre.k < 0: a point exactly on a split line is handled by the child whose Min edge is that line (must agree with W3)")
}

func sortedInts(m map[int]bool) []int {
	var out []int
	for k := 0; k < 8; k++ {
		if m[k] {
			out = append(out, k)
		}
	}
	return out
}

func checkLineOwnership(ctx *Ctx, r *Report) {
	fn := ctx.ssaFunc("sdf", "(*Box2).lineIntersect")
	if fn == nil {
		r.undecided("W3", "Box2.lineIntersect", 0, "not found")
		return
	}
	ev := newEval(ctx)
	ev.evalRoot(fn)
	box, l := paramName(fn, 0), paramName(fn, 1)
	horiz := Cmp("==", Sub(A(l+"[1].Y"), A(l+"[0].Y")), K(0))
	vert := Cmp("==", Sub(A(l+"[1].X"), A(l+"[0].X")), K(0))
	onTop := Cmp("==", A(l+"[0].Y"), A(box+".Max.Y"))
	onRight := Cmp("==", A(l+"[0].X"), A(box+".Max.X"))
	onBottom := Cmp("==", A(l+"[0].Y"), A(box+".Min.Y"))
	onLeft := Cmp("==", A(l+"[0].X"), A(box+".Min.X"))
	nonNil := 0
	okTop, okRight := true, true
	usesMin := false
	for _, alt := range ev.RootRets {
		if _, isNil := alt.Val.(Nil); isNil {
			continue
		}
		nonNil++
		c := alt.Cond
		if !assume(c, map[string]bool{horiz.Key(): true, onTop.Key(): true}).IsZero() {
			okTop = false
		}
		if !assume(c, map[string]bool{vert.Key(): true, onRight.Key(): true}).IsZero() {
			okRight = false
		}
		for _, ca := range condAtoms(c) {
			if ca.Key() == onBottom.Key() || ca.Key() == onLeft.Key() {
				usesMin = true
			}
		}
	}
	r.check("W3", "Box2.lineIntersect|returns-a-segment", fn.Pos(), nonNil >= 2, fmt.Sprintf("%d non-nil return paths", nonNil))
	r.check("W3", "Box2.lineIntersect|horizontal-segment-on-the-top-edge-is-never-returned", fn.Pos(), okTop, "every non-nil return must be unreachable when the segment is horizontal and lies on Max.Y (it belongs to the box above)")
	r.check("W3", "Box2.lineIntersect|vertical-segment-on-the-right-edge-is-never-returned", fn.Pos(), okRight, "every non-nil return must be unreachable when the segment is vertical and lies on Max.X (it belongs to the box to the right)")
	r.check("W3", "Box2.lineIntersect|bottom-and-left-edges-are-kept", fn.Pos(), !usesMin, "no return path excludes segments on Min.Y / Min.X: the lower-left child owns its bottom and left edges, matching W2")
}

func checkSharedKernels(ctx *Ctx, r *Report) {
	e := newFxEngine(ctx)
	fast := ctx.ssaFunc("sdf", "(*MeshSDF2).Evaluate")
	slow := ctx.ssaFunc("sdf", "(*MeshSDF2Slow).Evaluate")
	if fast == nil || slow == nil {
		r.undecided("W4", "MeshSDF2.Evaluate", 0, "not found")
		return
	}
	kw := ctx.ssaFunc("sdf", "(*lineInfo).winding")
	kd := ctx.ssaFunc("sdf", "(*lineInfo).minDistance2")
	rf := reachFrom(e, []*ssa.Function{fast}, false)
	rs := reachFrom(e, []*ssa.Function{slow}, false)
	r.check("W4", "fast-and-slow-share-the-winding-kernel", fast.Pos(), kw != nil && rf[kw] && rs[kw], "both paths count crossings with lineInfo.winding")
	r.check("W4", "fast-and-slow-share-the-distance-kernel", fast.Pos(), kd != nil && rf[kd] && rs[kd], "both paths measure with lineInfo.minDistance2")
	// final sign rule
	form := func(fn *ssa.Function) string {
		ev := newEval(ctx, "winding", "minDist2", "minDistance2")
		res, _ := ev.evalRoot(fn)
		t, _ := res.(*Term)
		if t == nil || t.Op != "ite" {
			return "?"
		}
		c := t.Args[0]
		a, b := t.Args[1], t.Args[2]
		// wn != 0 is represented as !(wn == 0); the mirrored form `wn == 0 ? √ : −√` is the same rule
		if c.Op == "not" {
			c = c.Args[0]
		} else {
			a, b = b, a
		}
		if c.Op != "cmp" || c.S != "==" || !(c.Args[1].IsZero() || c.Args[0].IsZero()) {
			return "cond:" + shortKey(t.Args[0].Key(), 60)
		}
		sq := func(x *Term) bool { return x.Op == "call" && x.S == "math.Sqrt" }
		if a.Op == "*" && sq(b) && equalRat(a, Neg(b)) {
			return "inside-negative"
		}
		return "other"
	}
	ff, fs := form(fast), form(slow)
	r.check("W4", "final-sign-rule-identical", fast.Pos(), ff == "inside-negative" && fs == ff, fmt.Sprintf("result = (wn != 0) ? −√d² : √d² in both; fast: %s, slow: %s", ff, fs))
}

// ---------------------------------------------------------------- W5: exact tiling

// checkQuadTiling: the four child boxes of a quadtree node must tile the node's box exactly in
// floating point, and the split lines must be the coordinates of the node's centre (which
// qtNode.winding routes on): a crossing segment is clipped into the children, so a child edge
// that is rounded differently from its neighbour's or from its parent's edge leaves a sliver
// one ulp wide that belongs to no leaf, and a ray cast inside the sliver misses the crossings
// of that column: enclosed points come back positive. Decided on float-faithful terms (the
// operations as performed, no re-association): each shared coordinate must be ONE expression.
func checkQuadTiling(ctx *Ctx, r *Report) {
	eval := func(name string) map[string]*Term {
		fn := ctx.ssaFunc("sdf", "(Box2)."+name)
		if fn == nil {
			return nil
		}
		ev := newEval(ctx)
		ev.faithful = true
		res, _ := ev.evalRoot(fn)
		m := map[string]*Term{}
		leafTerms("", res, m)
		return m
	}
	c := eval("Center")
	if c == nil || c[".X"] == nil || c[".Y"] == nil {
		r.undecided("W5", "Box2.Center", 0, "not found or not a closed form")
		return
	}
	build := ctx.ssaFunc("sdf", "qtBuild")
	if build != nil {
		usesCenter := false
		allInstrs(build, func(b *ssa.BasicBlock, ins ssa.Instruction) {
			if call, ok := ins.(*ssa.Call); ok {
				if f := call.Call.StaticCallee(); f != nil && f.Name() == "Center" {
					usesCenter = true
				}
			}
		})
		r.check("W5", "qtBuild|routing-centre-is-Box2.Center", build.Pos(), usesCenter, "the node centre that winding() routes on is box.Center()")
	} else {
		r.undecided("W5", "qtBuild", 0, "not found")
	}
	aMinX, aMinY, aMaxX, aMaxY := A("a.Min.X"), A("a.Min.Y"), A("a.Max.X"), A("a.Max.Y")
	want := map[string][4]*Term{ // Min.X, Min.Y, Max.X, Max.Y
		"quad0": {aMinX, aMinY, c[".X"], c[".Y"]},
		"quad1": {c[".X"], aMinY, aMaxX, c[".Y"]},
		"quad2": {aMinX, c[".Y"], c[".X"], aMaxY},
		"quad3": {c[".X"], c[".Y"], aMaxX, aMaxY},
	}
	for _, q := range []string{"quad0", "quad1", "quad2", "quad3"} {
		m := eval(q)
		if m == nil {
			r.undecided("W5", "Box2."+q, 0, "not found")
			continue
		}
		ok := true
		detail := ""
		for i, f := range []string{".Min.X", ".Min.Y", ".Max.X", ".Max.Y"} {
			got := m[f]
			if got == nil || got.Key() != want[q][i].Key() {
				ok = false
				g := "?"
				if got != nil {
					g = shortKey(got.Key(), 90)
				}
				detail += fmt.Sprintf(" %s is computed as %s, the neighbouring edge as %s;", f[1:], g, shortKey(want[q][i].Key(), 90))
			}
		}
		r.check("W5", "Box2."+q+"|shares-its-edges-with-parent-and-siblings", ctx.ssaFunc("sdf", "(Box2)."+q).Pos(), ok, "outer edges are the parent's own coordinates, inner edges the centre's (same floating-point expression on both sides);"+detail)
	}
}
